#!/bin/bash
# development helper: every thorough check once, with timing
cd "$(dirname "$0")"
for p in C01 C10 C12 C15 C02 C07; do
  echo "== thorough $p"
  /usr/bin/time -f "%e s wall" /venv/bin/python simjs/run.py check $p --tier thorough 2>&1 | grep -v "^HARNESS: minimise" | tail -6 | cut -c1-300
done
echo THOROUGH-DONE
