"""C12 -- a context keeps its own state: persistent, isolated, usable after errors.

A seeded history of operations over K contexts with different limits: evals that commit
effects (each followed by ack(k)) and then end normally or in a fault (deadline, memory
limit, throw, syntax error, foreign host exception, failing console sink), set/get, and ops
nested inside a host callable of an in-flight eval (re-entrant interleavings).  After every
step every context is observed through eval and get and compared with (a) a dictionary model
and (b) a fault-free twin context that executed only the committed effects.
"""
import io
import json
import copy
import sys

import world as W
from common import substream, loguniform, sha1, run_eval, pin_host_stack

PROPERTY = "C12"
LEVEL = "exploration"

NAMES = ["g0", "g1", "g2", "g3"]
BSLOTS = ["Math.m0", "Math.m1", "JSON.j0", "Object.prototype.o0", "String.s0", "Error.prototype.e0", "Array.a0",
          # every built-in object a context owns
          "Number.n0", "RegExp.r0", "Date.d0", "console.c0", "Function.prototype.f0", "Boolean.b0", "Int32Array.t0",
          "TypeError.prototype.te0", "RangeError.prototype.re0", "ArrayBuffer.ab0", "Object.o1", "Error.e1", "Float64Array.fa0",
          "Uint8Array.ua0", "SyntaxError.prototype.se0", "ReferenceError.re1"]
LOCALS = ["loc0", "loc1"]

OBSERVE = ("[" + ", ".join(
    "(typeof %s=='undefined')?'U':(typeof %s=='function'?['fn',%s()]:%s)" % (n, n, n, n) for n in NAMES)
    + ", " + ", ".join(BSLOTS)
    + ", (typeof rx=='undefined')?'U':rx.lastIndex"
    + ", " + ", ".join("typeof %s" % n for n in LOCALS) + "]")

# behavioural probes: (script, expected on a pristine context)
PROBES = [
    ("[1,2,3].map(function(x){return x*2}).join('-')", "2-4-6"),
    ("JSON.stringify({a:[1,{b:2}],c:'x'})", '{"a":[1,{"b":2}],"c":"x"}'),
    ("'abc'.toUpperCase() + 'XY'.toLowerCase()", "ABCxy"),
    ("var r9=null; try{ null.x }catch(e){ r9=e.name+':'+(e instanceof TypeError) } r9", "TypeError:true"),
    ("Math.max(1,7,3) + Math.min(4,2)", 9),
    ("(function(){ var c=0; var inc=function(){ return ++c; }; inc(); inc(); return inc(); })()", 3),
    ("/(\\d+)-(\\d+)/.exec('ab 12-34 cd')[2]", "34"),
    ("var o9={a:1,b:2}; var k9=[]; for (var q9 in o9) { k9.push(q9); } k9.join()", "a,b"),
    ("[3,1,2].sort(function(a,b){return a-b}).join('')", "123"),
    ("var s9=0; for (var i9=0;i9<10;i9++){ if(i9%2) continue; s9+=i9; } s9", 20),
    ("typeof undefinedThing9 + '|' + typeof Math.abs + '|' + (1/3).toFixed(2)", "undefined|function|0.33"),
    ("new Error('m9').message + '|' + (new RangeError('r') instanceof Error)", "m9|true"),
    ("'a-b-c'.split('-').reverse().join('+') + 'xyz'.replace(/y/,'Y')", "c+b+axYz"),
    ("parseInt('42px') + parseFloat('1.5') + Number('2')", 45.5),
    ("[1,2,3].join(';') + '|' + [1,2,3].indexOf(2)", "1;2;3|1"),
    # what the front end accepts is part of a fresh context's behaviour too: words that are special
    # only in some positions, used as plain names (expected = whatever the first answer was)
    ("var of = 1; of", None),
    ("var get = 1, set = 2; get + set", 3),
    ("var from = 3, as = 4, async = 5; from + as + async", 12),
    ("function of(of){ return of } of(5)", None),
    ("var o8 = {of: 1, get: 2, set: 3, in: 4, get g(){ return 5 }}; o8.of + o8.get + o8.in + o8.g", 12),
    ("var t8 = 0; for (var of8 of [1, 2]) { t8 += of8 } for (var in8 in {a: 1}) { t8 += in8 } t8", "3a"),
]
N_BEHAVIOUR_PROBES = len(PROBES)

LOOP_TERMINALS = ("loop_while", "loop_cb", "loop_regex", "loop_eval", "loop_getter", "loop_in_try", "loop_in_try_finally",
                  "loop_cb_in_try")
REC_TERMINALS = ("rec_self", "rec_cb", "rec_in_try", "rec_global_array_cb")
MIRRORED_TERMINALS = ("none", "throw_err", "throw_str", "type_error", "throw_in_try_finally")
NESTED_TERMINALS = ("nested_eval_throw", "nested_eval2_throw", "nested_eval_loop", "nested_newfn_throw")
OTHER_TERMINALS = ("none", "none", "throw_err", "throw_str", "type_error", "throw_in_try_finally", "syntax", "compile_error_nested",
                   "compile_error_label", "host_raise", "sink_fail",
                   "nested_eval_throw", "nested_eval2_throw", "nested_newfn_throw")

TERMINAL_SRC = {
    "none": "",
    "throw_err": "throw new Error('boom');",
    "throw_str": "throw 'boom';",
    "type_error": "null.x;",
    "loop_while": "while(true){}",
    "loop_cb": "[1,2].forEach(function(){ while(true){} });",
    "loop_regex": "while(true){ /(a+)+b/.test('aaaaaaaaaaaaaaaaaaaaaaaa'); }",
    "loop_eval": "eval('while(true){}');",
    "loop_getter": "({get x(){ while(true){} }}).x;",
    "loop_in_try": "try { while(true){} } catch (e) { ack(99); }",
    "loop_in_try_finally": "try { try { for(;;){} } finally { ack(98); } } catch (e2) { ack(97); }",
    "loop_cb_in_try": "try { [1,2].map(function(){ try { while(true){} } catch (e3) {} }); } catch (e4) {}",
    "rec_in_try": "try { (function rt(){ try { return 1 + rt(); } catch (e5) { return rt(); } })(); } catch (e6) {}",
    "throw_in_try_finally": "try { throw new Error('inner'); } finally { gfin = 1; }",
    "rec_global_array_cb": "if (typeof garr === 'undefined') { garr = [3, 1, 2]; } garr.forEach(function gq(){ garr.forEach(gq); garr.map(gq); });",
    "rec_self": "(function rr(){ return 1 + rr(); })();",
    "rec_cb": "function rc(){ [1].forEach(rc); } rc();",
    "host_raise": "boom();",
    "sink_fail": "console.log('to a broken sink');",
    "syntax": None,        # SYNTAX_SRCS[op["syn"]]
    "compile_error_nested": "function zq9(g0, g1) { var g2 = 1; function g3() { return 1; } function zin9() { break; } return g2; }",
    "compile_error_label": "function zq8(g1, g3) { var g0; var zf8 = function () { function zd8() { continue nolabel; } }; }",
}


# programs that fail to parse, cut at different places of the grammar (the parser must leave nothing
# behind -- in the context or in the process -- wherever it gives up)
SYNTAX_SRCS = (
    "var = ;", "for (var i = 0; i < ; i++) {}", "for (x of) {}", "for (var k in ) {}", "for (;;", "function (",
    "({get x( })", "[1, 2", "switch (1) { case", "a ? b", "'unterminated", "x = {a: }", "try {", "do { } while (",
    "(function(){ return", "if (1", "new (", "a.b.", "var o = {get", "x => {", "1 + ;", "({a:1,,})", "while (",
    "(a, b) => ;", "function f(a, ) { ", "for (var q = function(){ for (var z of [1]) {} ; in 3) {}",
    "label: for (;;) { switch (1) { case 1: (function(){ try { ", "var r = /a/g; r.test('a' ",
)


def terminal_src(op):
    if op["terminal"] == "syntax":
        return SYNTAX_SRCS[op.get("syn", 0) % len(SYNTAX_SRCS)]
    return TERMINAL_SRC[op["terminal"]]


# expressions that give the script a NEW object every time they are evaluated: what one evaluation
# writes on such an object must never be found on the one the next evaluation gets
FRESH = (
    "(function(){ return arguments; })()", "(function(a){ return arguments; })()", "[]", "({})", "/x/g", "(function(){}).prototype",
    "'a,b'.split(',')", "Object.keys({a: 1})", "[1, 2].map(function(x){ return x; })", "new Error('x')", "JSON.parse('{}')",
    "JSON.parse('[]')", "Object.create(null)", "new Object()", "new Array()", "[].concat()", "[1].slice(1)",
    "'abc'.match(/b/)", "/b/.exec('abc')", "[[1]][0]", "(() => 1)", "(function(){})", "Object.values({})",
    "Object.entries({})", "[].filter(function(){ return true; })", "new RegExp('x')", "Object(1)", "new String('s')",
)


def fresh_probe_src(k):
    return ("(function(){ var t9 = %s; return String(t9.zq9) + '|' + String(t9[0]) + '|' + String(t9.length); })()" % FRESH[k])


PROBES += [(fresh_probe_src(k), None) for k in range(len(FRESH))]
PARSER_ALL = len(PROBES)     # every front-end probe in one evaluation (each snippet through eval, so one refusal does not hide the others)
_PARSER_SNIPPETS = [PROBES[i][0] for i in range(N_BEHAVIOUR_PROBES - 6, N_BEHAVIOUR_PROBES)] + [
    "var let_ = 1, static_ = 2; let_ + static_", "(function(get, set){ return get + set; })(1, 2)", "var x8 = {async: 1, await: 2, yield: 3}; x8.async + x8.await + x8.yield", "var a8 = [1, 2, 3]; var s8 = 0; for (var v8 of a8) { s8 += v8; } s8"]
PROBES.append(("[" + ", ".join(json.dumps(x) for x in _PARSER_SNIPPETS) + "].map(function(s9){ try { return String(eval(s9)); } catch (e9) { return 'E:' + e9.name; } }).join(';')", None))
FRESH_ALL = len(PROBES)      # every fresh-object expression looked at in one evaluation
# (an array literal that continues with a member access is wrapped: the parser's nested-array fast
# path does not accept `[[1].x]`)
PROBES.append(("[" + ", ".join("(%s)" % f if f.startswith("[") else f for f in FRESH) + "].map(function(t9){ return String(t9.zq9) + '|' + String(t9[0]) + '|' + String(t9.length); }).join(';')", None))


# cheap operations repeated a few hundred times inside one evaluation: whatever an operation leaves
# behind per call (a counter, a cache entry, a list element) must not change what later ones do
CHURN = (
    "eval(7);", "eval();", "eval(null);", "eval('1');", "(0, eval)('2');", "new Function('return 1')();",
    "try { eval('('); } catch (c1) {}", "try { eval('throw 1'); } catch (c1) {}", "try { null.x; } catch (c1) {}",
    "try { undefinedFn9(); } catch (c1) {}", "try { new Function('(')(); } catch (c1) {}", "JSON.parse('[1]');",
    "try { JSON.parse('['); } catch (c1) {}", "'ab'.match('a');", "try { new RegExp('('); } catch (c1) {}", "/a/.test('a');",
    "[1].forEach(function(){});", "({}).toString();", "try { (function(){ throw 1; })(); } catch (c1) {}",
    "Object.keys({a: 1});", "try { [1].forEach(function(){ throw 1; }); } catch (c1) {}",
)


# ------------------------------------------------------------------ generation
def gen_effect(rng, vals):
    v = vals[0]
    vals[0] += 1
    r = rng.random()
    name = rng.choice(NAMES)
    if r < 0.18:
        return {"e": "var", "name": name, "v": v}
    if r < 0.30:
        return {"e": "fnexpr", "name": name, "v": v}
    if r < 0.42:
        return {"e": "indirect", "name": name, "v": v}
    if r < 0.52:
        return {"e": "newfn", "name": name, "v": v}
    if r < 0.64:
        return {"e": "implicit", "name": name, "v": v}
    if r < 0.84:
        return {"e": "builtin", "slot": rng.choice(BSLOTS), "v": v}
    if r < 0.88:
        return {"e": "regex", "v": v}
    if r < 0.91:
        return {"e": "rxdef", "v": v}
    if r < 0.95:
        return {"e": "taint", "fresh": rng.randrange(len(FRESH)), "v": v}
    if r < 0.975:
        return {"e": "mutate", "name": name, "v": v}
    if r < 0.992:
        return {"e": "churn", "snip": rng.randrange(len(CHURN)), "n": rng.choice((130, 300)), "v": v}
    return {"e": "local", "name": rng.choice(LOCALS), "v": v}


def effect_src(e):
    k = e["e"]
    if k == "var":
        return "var %s = %d;" % (e["name"], e["v"])
    if k == "fnexpr":
        return "%s = function(){ return %d; };" % (e["name"], e["v"])
    if k == "indirect":
        return "eval(%s);" % json.dumps("var %s = %d" % (e["name"], e["v"]))
    if k == "newfn":
        return "new Function(%s)();" % json.dumps("%s = %d" % (e["name"], e["v"]))
    if k == "implicit":
        return "%s = %d;" % (e["name"], e["v"])
    if k == "builtin":
        return "%s = %d;" % (e["slot"], e["v"])
    if k == "regex":
        return "rx = /a/g; rx.test('aaaaaa'); rx.test('aaaaaa');" if e["v"] % 2 else "rx = /a/g; rx.test('aaaaaa');"
    if k == "mutate":
        n = e["name"]
        return ("if (typeof %s == 'object' && %s !== null) { if (typeof %s.push == 'function') { %s.push(%d); } else { %s.zq = %d; "
                "if (%s.k && typeof %s.k.push == 'function') { %s.k.push(%d); } } }" % (n, n, n, n, e["v"], n, e["v"], n, n, n, e["v"]))
    if k == "churn":
        return "for (var cq = 0; cq < %d; cq++) { %s }" % (e["n"], CHURN[e["snip"] % len(CHURN)])
    if k == "taint":
        # write on a freshly made object in every way a script can (no effect on any later evaluation)
        return ("(function(){ var t9 = %s; try { t9.zq9 = %d; } catch (e1) {} try { if (typeof t9.push == 'function') { t9.push(%d); } else { t9[0] = %d; } } catch (e2) {} })();"
                % (FRESH[e["fresh"] % len(FRESH)], e["v"], e["v"], e["v"]))
    if k == "local":
        return "(function(){ var %s = %d; return %s; })();" % (e["name"], e["v"], e["name"])
    if k == "rxdef":
        return "rxb = /(a|b)*c/; rxc = new RegExp('(a|b)*c'); rxf = function(s){ return rxb.test(s); };"
    raise AssertionError(k)


def apply_effect(model, e):
    k = e["e"]
    if k in ("var", "indirect", "newfn", "implicit"):
        model["g"][e["name"]] = e["v"]
    elif k == "fnexpr":
        model["g"][e["name"]] = ["fn", e["v"]]
    elif k == "builtin":
        model["b"][e["slot"]] = e["v"]
    elif k == "regex":
        model["rx"] = 2 if e["v"] % 2 else 1
    elif k == "rxdef":
        model["rxdef"] = True
    elif k == "mutate":
        cur = model["g"].get(e["name"])
        if isinstance(cur, list) and cur[:1] != ["fn"]:
            cur.append(e["v"])
        elif isinstance(cur, dict):
            cur["zq"] = e["v"]
            if isinstance(cur.get("k"), list):
                cur["k"].append(e["v"])


def expected_observation(model):
    out = []
    for n in NAMES:
        out.append(model["g"].get(n, "U"))
    for s in BSLOTS:
        out.append(model["b"].get(s))
    out.append(model.get("rx", "U"))
    out += ["undefined"] * len(LOCALS)
    return out


def nested_terminal_src(op, idx):
    """The last effect is an assignment made by nested eval/Function code that acknowledges it and
    then fails: it was committed before the error, so it must persist."""
    e = op["effects"][idx]
    inner = "%s = %d; ack(%d); " % (e["name"], e["v"], idx)
    t = op["terminal"]
    if t == "nested_eval_throw":
        return "eval(%s);" % json.dumps(inner + "throw new Error('in nested eval');")
    if t == "nested_eval2_throw":
        return "eval(%s);" % json.dumps("eval(%s);" % json.dumps(inner + "null.x;"))
    if t == "nested_eval_loop":
        return "eval(%s);" % json.dumps(inner + "while(true){}")
    if t == "nested_newfn_throw":
        return "new Function(%s)();" % json.dumps(inner + "throw 'in Function code';")
    raise AssertionError(t)


def op_src(op, with_terminal=True, upto=None):
    parts = []
    effs = op["effects"] if upto is None else op["effects"][:upto]
    for idx, e in enumerate(effs):
        if with_terminal and op["terminal"] in NESTED_TERMINALS and idx == len(op["effects"]) - 1:
            parts.append(nested_terminal_src(op, idx))
            continue
        parts.append(effect_src(e))
        parts.append("ack(%d);" % idx)
        b = op.get("busy", [])
        if with_terminal and idx < len(b) and b[idx]:
            parts.append("for (var bz=0; bz<%d; bz++) {}" % b[idx])
        if with_terminal and op.get("reenter_at") == idx:
            parts.append("re();")
    if with_terminal and op["terminal"] not in NESTED_TERMINALS:
        parts.append(terminal_src(op))
    parts.append("'ok';")
    return "\n".join(parts)


def n_cases(tier):
    return 700 if tier == "quick" else 8000


def gen_case(seed, i, tier="quick"):
    rng = substream(seed, "c12", i)
    K = rng.choice((1, 2, 2, 3))
    ctxs = []
    for c in range(K):
        r = rng.random()
        T_work = loguniform(rng, 40_000, 150_000) if r < 0.7 else None
        M = rng.choice((None, 30_000, 200_000, 1 << 20)) if T_work else rng.choice((30_000, 200_000))
        ctxs.append({"T_work": T_work, "M": M})
    n_ops = rng.randrange(3, 10 if tier == "quick" else 26)
    vals = [100 * (i % 1000) + 1]
    ops = []
    for _ in range(n_ops):
        ops.append(gen_op(rng, ctxs, vals, allow_reenter=True))
    return {"property": PROPERTY, "seed": seed, "index": i, "ctxs": ctxs, "ops": ops,
            "world": {"tick": 10 ** rng.uniform(-6, -4), "epoch": round(rng.uniform(0, 1e5), 3)}}


def gen_op(rng, ctxs, vals, allow_reenter):
    c = rng.randrange(len(ctxs))
    cfg = ctxs[c]
    r = rng.random()
    if r < 0.12:
        v = vals[0]
        vals[0] += 1
        op = {"op": "set", "ctx": c, "name": rng.choice(NAMES), "v": v}
        if rng.random() < 0.4:
            # the embedder hands the SAME Python list/dict to several contexts (or twice to one): each
            # set() must give the context a value of its own
            op["py"] = rng.choice(("list", "dict"))
        return op
    if r < 0.2:
        return {"op": "get", "ctx": c, "name": rng.choice(NAMES)}
    if r < 0.28 and cfg["T_work"]:
        return {"op": "busy_ok", "ctx": c, "iters": int(0.45 * cfg["T_work"] / 45)}
    if r < 0.36:
        r2 = rng.random()
        return {"op": "probe", "ctx": c, "probe": FRESH_ALL if r2 < 0.35 else (PARSER_ALL if r2 < 0.6 else rng.randrange(len(PROBES)))}
    if r < 0.44:
        return {"op": "regex_reuse", "ctx": c, "stall": rng.choice((0.0, 0.5, 3.0))}
    if r < 0.50:
        return {"op": "strmatch", "ctx": c, "stall": rng.choice((0.0, 3.0)), "pat": rng.randrange(2)}
    if r < 0.58:
        return {"op": "array_reuse", "ctx": c, "stall": rng.choice((0.0, 0.0, 3.0))}
    if r < 0.63:
        return {"op": "json_recover", "ctx": c, "how": rng.choice(("cycle", "cycle_caught", "deep"))}
    effects = [gen_effect(rng, vals) for _ in range(rng.randrange(1, 5))]
    if cfg["T_work"]:
        # a few hundred nested evaluations do not fit every time limit: churn only where none is set
        effects = [e if e["e"] != "churn" else {"e": "implicit", "name": NAMES[e["v"] % len(NAMES)], "v": e["v"]} for e in effects]
    pool = list(OTHER_TERMINALS)
    if cfg["T_work"]:
        pool += list(LOOP_TERMINALS) * 2
    if cfg["M"] or cfg["T_work"]:
        pool += list(REC_TERMINALS)
    if cfg["T_work"]:
        pool.append("nested_eval_loop")
    term = rng.choice(pool)
    if term in NESTED_TERMINALS:
        v = vals[0]
        vals[0] += 1
        effects.append({"e": "implicit", "name": rng.choice(NAMES), "v": v})
    op = {"op": "eval", "ctx": c, "effects": effects, "terminal": term, "busy": []}
    if term == "syntax":
        op["syn"] = rng.randrange(len(SYNTAX_SRCS))
    if term in LOOP_TERMINALS and rng.random() < 0.5:
        # spread busy work between the effects so that the deadline lands between or inside them
        tot = cfg["T_work"] / 45.0
        op["busy"] = [int(tot * rng.choice((0.2, 0.5, 0.9, 1.3))) for _ in effects]
    if allow_reenter and rng.random() < 0.2:
        op["reenter_at"] = rng.randrange(len(effects))
        inner = gen_op(rng, ctxs, vals, allow_reenter=False)
        tries = 0
        slow = LOOP_TERMINALS + REC_TERMINALS + ("nested_eval_loop",)   # a nested op that burns the outer eval's own budget
        while (inner["op"] not in ("eval", "set", "get") or inner.get("terminal") in slow) and tries < 20:
            inner = gen_op(rng, ctxs, vals, allow_reenter=False)
            tries += 1
        if inner["op"] in ("eval", "set", "get") and inner.get("terminal") not in slow:
            op["nested"] = inner
        else:
            op.pop("reenter_at")
    return op


# ------------------------------------------------------------------ execution
class _FailingSink(io.TextIOBase):
    def write(self, s):
        raise OSError(28, "No space left on device (injected)")


_BASELINE = {}     # probe index -> what a pristine context answered the first time this process asked


def _outcome(out):
    return (out["kind"], out.get("value") if out["kind"] == "value" else out.get("cls"))


def baseline(Context):
    """Answers of a pristine context to every probe, taken once per process before any history has
    run in it.  Later pristine contexts must keep giving them: state that a failed evaluation leaves
    in the process (not in a context) changes all contexts alike, so only a comparison with the
    past can see it.  Uses no budget of the case (the counter is paused)."""
    if not _BASELINE:
        S = W.S
        saved = (S.counting, S.cap, S.next_at)
        S.counting = False
        try:
            for i, (src, _) in enumerate(PROBES):
                try:
                    v = ("value", W.canon(Context().eval(src)))
                except BaseException as e:      # noqa
                    k = W.classify_exception(e)
                    v = (k[0], k[1])
                _BASELINE[i] = v
        finally:
            S.counting = saved[0]
    return _BASELINE


class Sim:
    def __init__(self, case):
        from microjs import Context
        self.case = case
        self.Context = Context
        baseline(Context)
        S = W.S
        self.ctxs = []
        self.twins = []
        self.models = []
        self.viol = []
        self.fired = []
        self.inflight = []
        self.nested_queue = []
        self.steps = 0
        self.pyobjs = {"list": [1, 2, 3], "dict": {"a": 1, "k": [1, 2]}}     # shared by identity within the case
        for cfg in case["ctxs"]:
            T = cfg["T_work"] * S.tick if cfg["T_work"] else None
            self.ctxs.append(Context(time_limit=T, memory_limit=cfg["M"]))
            self.twins.append(Context())
            self.models.append({"g": {}, "b": {}})
        for i in range(len(self.ctxs)):
            self._bind(self.ctxs[i], primary=True)
            self._bind(self.twins[i], primary=False)

    def _bind(self, ctx, primary):
        def ack(*a):
            # the effect is committed: apply it to the model and to the fault-free twin now, so
            # that operations nested in a host callable are ordered as they really ran
            if not primary or not self.inflight:
                return
            fl = self.inflight[-1]
            k = int(a[0])
            if k >= 90:
                # a script handler ran after the stop (the stop must not be catchable)
                fl.setdefault("late", []).append(k)
                return
            fl["acks"].append(k)
            if k < len(fl["op"]["effects"]):
                e = fl["op"]["effects"][k]
                apply_effect(self.models[fl["c"]], e)
                tw = run_eval(self.twins[fl["c"]], effect_src(e) + "\n'ok';", 3_000_000)
                if tw["kind"] != "value":
                    self.bad("precondition", "twin failed on a committed effect: %s %s" % (tw["kind"], tw.get("msg")), self.steps)

        def boom(*a):
            raise ValueError("injected foreign exception from a host callable")

        def re(*a):
            if primary and self.nested_queue:
                inner = self.nested_queue.pop(0)
                self.run_op(inner, nested=True)
        ctx.set("ack", ack)
        ctx.set("boom", boom)
        ctx.set("re", re)

    def bad(self, clause, detail, step):
        self.viol.append({"clause": clause, "detail": "step %d: %s" % (step, detail)})

    # -- one operation on the primary, mirrored on model and twin
    def run_op(self, op, nested=False):
        c = op["ctx"]
        ctx, twin, model = self.ctxs[c], self.twins[c], self.models[c]
        cfg = self.case["ctxs"][c]
        step = self.steps
        kind = op["op"]
        W.log("op", kind, c, op.get("terminal"))
        if kind == "set":
            val = self.pyobjs[op["py"]] if op.get("py") else op["v"]
            ctx.set(op["name"], val)
            twin.set(op["name"], val)
            model["g"][op["name"]] = copy.deepcopy(val)
            return
        if kind == "get":
            got = W.canon(ctx.get(op["name"]))
            exp = model["g"].get(op["name"])
            if isinstance(exp, list) and exp[:1] == ["fn"]:
                return  # a function: get() hands back the function object
            if got != exp:
                self.bad("C12.persist", "get(%s) on context %d returned %r, expected %r" % (op["name"], c, got, exp), step)
            return
        cap = (cfg["T_work"] or 0) * 3 + 3_000_000
        if kind == "busy_ok":
            out = run_eval(ctx, "for (var bz=0; bz<%d; bz++) {} 'ok';" % op["iters"], cap)
            if out["kind"] != "value":
                self.bad("C12.leak", "a bounded eval needing about 45%% of the time limit ended in %s %s on context %d (time budget of an earlier eval carried over?)" % (
                    out["kind"], out.get("cls"), c), step)
            return
        if kind == "regex_reuse":
            # RegExp objects made by an earlier eval, used after the process was stalled for a
            # while: their matches run under THIS eval's budget, not the old one
            if not model.get("rxdef"):
                return
            if cfg["T_work"]:
                W.S.mono_off += op["stall"] * cfg["T_work"] * W.S.tick
                W.log("fault_fired", "stall_between_evals", op["stall"])
            subj = json.dumps("ab" * 150 + "c")
            src = "[rxb.test(%s), rxc.test(%s), rxf(%s), %s.replace(rxb, '').length]" % (subj, subj, subj, subj)
            out = run_eval(ctx, src, cap)
            tw = run_eval(twin, src, cap)
            a = (out["kind"], out.get("value") if out["kind"] == "value" else out.get("cls"))
            b = (tw["kind"], tw.get("value") if tw["kind"] == "value" else tw.get("cls"))
            if a != b:
                self.bad("C12.leak", "RegExp objects defined by an earlier eval: context %d gives %r, its fault-free twin %r (the time budget of an earlier eval carried over?)" % (c, a, b), step)
            return
        if kind == "json_recover":
            # a built-in that fails half-way through a long-lived object graph (a cycle, too deep)
            # and is then used again on the same, repaired, objects
            mk = "if (typeof gobj === 'undefined') { gobj = {a: [1, {b: 2}], c: 'x'}; }\n"
            if op["how"] == "deep":
                bad = mk + "var dz = gobj.a[1]; for (var i = 0; i < 5000; i++) { dz.n = {}; dz = dz.n; } JSON.stringify(gobj);"
                fix = "delete gobj.a[1].n;"
            elif op["how"] == "cycle":
                bad = mk + "gobj.a[1].self = gobj; JSON.stringify(gobj);"
                fix = "delete gobj.a[1].self;"
            else:
                bad = mk + "gobj.self = gobj; var jr; try { JSON.stringify(gobj); jr = 'no error'; } catch (e) { jr = 'caught'; } jr;"
                fix = "delete gobj.self;"
            o1 = run_eval(ctx, bad, cap)
            o2 = run_eval(ctx, fix + " JSON.stringify(gobj);", cap)
            if not (o2["kind"] == "value" and o2["value"] == '{"a":[1,{"b":2}],"c":"x"}'):
                self.bad("C12.recover", "JSON.stringify of a repaired object graph after a failed stringify (%s, ended in %s) on context %d gives %s %r, a context without the failed call gives the JSON text" % (
                    op["how"], o1["kind"], c, o2["kind"], o2.get("value") if o2["kind"] == "value" else o2.get("msg")), step)
            run_eval(twin, mk + "'ok';", cap)
            return
        if kind == "array_reuse":
            # one global array lives across evals: its callback-taking methods must run their
            # callbacks in THIS evaluation (its limits, its handlers), whatever earlier evals did
            if cfg["T_work"]:
                W.S.mono_off += op["stall"] * cfg["T_work"] * W.S.tick
            src = ("if (typeof garr === 'undefined') { garr = [3, 1, 2]; }\n"
                   "[garr.map(function(x){ return x * 2; }).join(), garr.filter(function(x){ return x > 1; }).length,"
                   " garr.slice().sort(function(a, b){ return a - b; }).join(), garr.reduce(function(a, x){ return a + x; }, 0),"
                   " (function(){ try { garr.forEach(function(){ throw 7; }); } catch (e) { return e; } return 'none'; })(),"
                   " (function(){ var n = 0; for (var i = 0; i < 40; i++) { garr.forEach(function(){ n++; }); } return n; })()]")
            out = run_eval(ctx, src, cap)
            tw = run_eval(twin, src, cap)
            a = (out["kind"], out.get("value") if out["kind"] == "value" else out.get("cls"))
            b = (tw["kind"], tw.get("value") if tw["kind"] == "value" else tw.get("cls"))
            if a != b or a != ("value", ["6,2,4", 2, "1,2,3", 6, 7, 120]):
                self.bad("C12.recover", "methods of a global array that earlier evals used: context %d gives %r, its fault-free twin %r, expected ['6,2,4', 2, '1,2,3', 6, 7, 120]" % (c, a, b), step)
            return
        if kind == "strmatch":
            # a pattern given as a STRING to match/search: compiled per call, so no evaluation's
            # deadline may travel with it to a later eval or to another context
            if cfg["T_work"]:
                W.S.mono_off += op["stall"] * cfg["T_work"] * W.S.tick
            pat = ("(a|b)*c", "(ab)*c|x")[op["pat"]]
            subj = json.dumps("ab" * 150 + "c")
            src = "[%s.match(%s)[0].length, %s.search(%s)]" % (subj, json.dumps(pat), subj, json.dumps(pat))
            out = run_eval(ctx, src, cap)
            if not (out["kind"] == "value" and out["value"] == [301, 0]):
                self.bad("C12.leak", "string-pattern match/search on context %d ended in %s %s %r (another evaluation's state travelled with the pattern?)" % (
                    c, out["kind"], out.get("cls"), out.get("value")), step)
            return
        if kind == "probe":
            src, exp = PROBES[op["probe"]]
            out = run_eval(ctx, src, cap)
            tw = run_eval(twin, src, cap)
            a = (out["kind"], out.get("value") if out["kind"] == "value" else out.get("cls"))
            b = (tw["kind"], tw.get("value") if tw["kind"] == "value" else tw.get("cls"))
            if a != b:
                self.bad("C12.recover", "probe %r: context %d gives %r, its fault-free twin %r" % (src[:40], c, a, b), step)
            else:
                # what a brand-new context gives (the constant in PROBES is documentation only)
                pr = run_eval(self.Context(), src, cap)
                b2 = (pr["kind"], pr.get("value") if pr["kind"] == "value" else pr.get("cls"))
                if a != b2:
                    self.bad("C12.isolate", "probe %r gives %r on context %d and its twin, a pristine context gives %r" % (src[:40], a, c, b2), step)
                elif tuple(_BASELINE.get(op["probe"], b2)) != tuple(b2):
                    self.bad("C12.isolate", "probe %r gives %r on a pristine context now, and gave %r before the earlier evaluations of this process ran" % (
                        src[:40], b2, tuple(_BASELINE[op["probe"]])), step)
            return
        # ---- eval with effects and a terminal
        src = op_src(op)
        if op.get("nested") is not None and not nested:
            self.nested_queue.append(op["nested"])
        fl = {"op": op, "c": c, "acks": []}
        self.inflight.append(fl)
        term = op["terminal"]
        old_stdout = sys.stdout
        if term == "sink_fail":
            sys.stdout = _FailingSink()
        try:
            out = run_eval(ctx, src, cap)
        finally:
            sys.stdout = old_stdout
            self.inflight.pop()
        if not nested:
            self.nested_queue = []
        acked = len(fl["acks"])
        if fl.get("late") and term in LOOP_TERMINALS + REC_TERMINALS:
            self.bad("C12.recover", "script handlers %r ran after the limit error of terminal %s" % (fl["late"], term), step)
        if fl["acks"] != list(range(acked)):
            self.bad("C12.persist", "acks out of order: %r" % (fl["acks"],), step)
        n_eff = len(op["effects"])
        # expected outcome class
        kind_out = out["kind"]
        ok_kinds = {
            "none": ("value",), "throw_err": ("js_error",), "throw_str": ("js_error",), "type_error": ("js_error",),
            "throw_in_try_finally": ("js_error",),
            "syntax": ("js_syntax",), "host_raise": ("host_exc",), "sink_fail": ("host_exc",),
            # rejected by the compiler before anything runs (the class of the rejection is a C04 matter)
            "compile_error_nested": ("js_syntax", "js_error", "host_exc"), "compile_error_label": ("js_syntax", "js_error", "host_exc"),
        }
        if term in LOOP_TERMINALS or term == "nested_eval_loop":
            allowed = ("limit_time",)
        elif term in NESTED_TERMINALS:
            allowed = ("js_error",)
        elif term in REC_TERMINALS:
            allowed = ("limit_mem", "limit_time")
        else:
            allowed = ok_kinds[term]
        if term != "none":
            self.fired.append(term)
        if kind_out not in allowed:
            if kind_out == "cap":
                self.bad("C12.recover", "eval with terminal %s on context %d did not return" % (term, c), step)
            elif kind_out == "limit_mem" and not nested and op.get("nested") is None:
                # none of these scripts nests calls: how much of the memory limit they need does not
                # depend on the context's globals, so a pristine context with the same limit decides
                # whether the limit or something this context has been through stopped the script
                pr = self.Context(memory_limit=cfg["M"])
                for nm in ("ack", "re"):
                    pr.set(nm, lambda *a: None)
                pr.set("boom", lambda *a: (_ for _ in ()).throw(ValueError("injected")))
                po = run_eval(pr, src, 3_000_000)
                if po["kind"] != "limit_mem":
                    self.bad("C12.recover", "eval with terminal %s on context %d was stopped by MemoryLimitError (memory_limit=%r); the same script on a pristine context with the same limit ends in %s" % (
                        term, c, cfg["M"], po["kind"]), step)
                else:
                    # flat statements and loops of flat statements: a few operands and frames at any
                    # moment, far below the smallest limit generated (30000)
                    self.bad("C12.recover", "eval with terminal %s on context %d was stopped by MemoryLimitError (memory_limit=%r) although it nests no calls; so is the same script on a pristine context" % (
                        term, c, cfg["M"]), step)
            else:
                self.bad("precondition", "terminal %s ended in %s %s %s" % (term, kind_out, out.get("cls"), out.get("msg")), step)
        if term in ("syntax", "compile_error_nested", "compile_error_label"):
            acked = 0
            n_committed = 0
        else:
            n_committed = acked
        if term in MIRRORED_TERMINALS and not nested:
            # the same script on the fault-free twin: a context that has been through errors must
            # behave like one that has not (the effects are idempotent assignments)
            tw = run_eval(twin, src, cap)
            a = (kind_out, out.get("cls"), out.get("msg") if kind_out != "value" else out.get("value"))
            b = (tw["kind"], tw.get("cls"), tw.get("msg") if tw["kind"] != "value" else tw.get("value"))
            if a != b:
                self.bad("C12.recover", "eval ending in %s: context %d gives %r, its fault-free twin gives %r" % (term, c, a, b), step)
        # (committed effects were applied to the model and the twin when they were acknowledged)
        # the effect in flight when the fault landed may be present or absent
        if term not in ("syntax", "compile_error_nested", "compile_error_label") and n_committed < n_eff and kind_out != "value":
            e = op["effects"][n_committed]
            obs = self.observe(ctx, c, step)
            if obs is not None:
                trial = json.loads(json.dumps(model))
                apply_effect(trial, e)
                if obs == expected_observation(trial) and obs != expected_observation(model):
                    apply_effect(model, e)
                    run_eval(twin, effect_src(e) + "\n'ok';", 3_000_000)
                    W.log("inflight_present", c)
        elif kind_out == "value" and n_committed != n_eff:
            self.bad("C12.persist", "eval returned normally but only %d of %d effects were acknowledged" % (n_committed, n_eff), step)

    def observe(self, ctx, c, step):
        out = run_eval(ctx, OBSERVE, 3_000_000)
        if out["kind"] != "value":
            self.bad("C12.recover", "observation eval on context %d ended in %s %s: %s" % (c, out["kind"], out.get("cls"), out.get("msg")), step)
            return None
        return out["value"]

    def check_all(self, step):
        for c in range(len(self.ctxs)):
            exp = expected_observation(self.models[c])
            obs = self.observe(self.ctxs[c], c, step)
            if obs is None:
                continue
            if obs != exp:
                # classify: a name/slot owned by another context's history -> isolate
                diffs = [j for j, (a, b) in enumerate(zip(obs, exp)) if a != b]
                labels = NAMES + BSLOTS + ["rx.lastIndex"] + LOCALS
                j = diffs[0]
                others = [self.models[o] for o in range(len(self.ctxs)) if o != c]
                other_vals = set()
                for om in others:
                    other_vals |= {json.dumps(x) for x in om["g"].values()} | {json.dumps(x) for x in om["b"].values()}
                if labels[j] in LOCALS:
                    clause = "C12.leak"
                elif json.dumps(obs[j]) in other_vals and len(self.ctxs) > 1:
                    clause = "C12.isolate"
                else:
                    clause = "C12.persist"
                self.bad(clause, "context %d: %s reads %r, model says %r" % (c, labels[j], obs[j], exp[j]), step)
            tw = run_eval(self.twins[c], OBSERVE, 3_000_000)
            if tw["kind"] == "value" and tw["value"] != obs and obs == exp:
                self.bad("precondition", "twin of context %d disagrees with the model: %r vs %r" % (c, tw["value"], exp), step)
            # get() agrees with eval for plain values
            for n in NAMES:
                mv = self.models[c]["g"].get(n)
                if mv is not None and not isinstance(mv, list):
                    got = W.canon(self.ctxs[c].get(n))
                    if got != mv:
                        self.bad("C12.persist", "context %d: get(%s) returned %r, model says %r" % (c, n, got, mv), step)


def execute(case):
    W.install()
    wd = case["world"]
    W.reset(tick=wd["tick"], epoch=wd["epoch"], seed=case.get("seed", 0))
    pin_host_stack()
    sim = Sim(case)
    w0 = W.S.work
    for step, op in enumerate(case["ops"]):
        sim.steps = step
        sim.run_op(op)
        sim.check_all(step)
        if len(sim.viol) > 20 or any("did not return" in v["detail"] for v in sim.viol):
            break
    res = {"violations": sim.viol[:20], "fired": sim.fired, "work": W.S.work - w0, "elapsed": W.S.work * W.S.tick,
           "digest": W.digest(), "bdigest": W.bdigest(), "n_ops": len(case["ops"]), "K": len(case["ctxs"])}
    return res


def violation_clauses(res):
    return sorted({v["clause"] for v in res.get("violations", []) if v["clause"].startswith("C12.")})


# ------------------------------------------------------------------ signature / minimisation
def features(case, res=None):
    f = set()
    f.add("K:%d" % len(case["ctxs"]))
    for op in case["ops"]:
        f.add("op:" + op["op"])
        if op["op"] == "eval":
            if op["terminal"] != "none":
                f.add("terminal:" + op["terminal"])
            for e in op["effects"]:
                f.add("effect:" + e["e"])
            if op.get("nested"):
                f.add("reentrant")
            if any(op.get("busy", [])):
                f.add("deadline-mid-effects")
    return sorted(f)


def normalise(case):
    return {"ctxs": [[bool(c["T_work"]), bool(c["M"])] for c in case["ctxs"]],
            "ops": [[o["op"], o["ctx"], o.get("terminal"), [e["e"] for e in o.get("effects", [])], bool(o.get("nested"))] for o in case["ops"]]}


def shrink_candidates(case):
    def cl():
        return json.loads(json.dumps(case))
    ops = case["ops"]
    for i in range(len(ops)):
        c = cl()
        c["ops"].pop(i)
        if c["ops"]:
            yield c
    for i, op in enumerate(ops):
        if op["op"] != "eval":
            continue
        if op.get("nested"):
            c = cl()
            c["ops"][i].pop("nested")
            c["ops"][i].pop("reenter_at", None)
            yield c
        if any(op.get("busy", [])):
            c = cl()
            c["ops"][i]["busy"] = []
            yield c
        if op.get("syn"):
            c = cl()
            c["ops"][i]["syn"] = 0
            yield c
        if op["terminal"] != "none":
            c = cl()
            c["ops"][i]["terminal"] = "none"
            c["ops"][i]["busy"] = []
            yield c
            if op["terminal"] in LOOP_TERMINALS and op["terminal"] != "loop_while":
                c = cl()
                c["ops"][i]["terminal"] = "loop_while"
                yield c
        for j in range(len(op["effects"])):
            if len(op["effects"]) > 1:
                c = cl()
                c["ops"][i]["effects"].pop(j)
                c["ops"][i]["busy"] = []
                if c["ops"][i].get("reenter_at", 0) >= len(c["ops"][i]["effects"]):
                    c["ops"][i]["reenter_at"] = 0
                yield c
            if op["effects"][j]["e"] != "var" and op["effects"][j]["e"] in ("fnexpr", "indirect", "newfn", "implicit"):
                c = cl()
                c["ops"][i]["effects"][j]["e"] = "var"
                yield c
    # fewer contexts
    K = len(case["ctxs"])
    if K > 1:
        used = sorted({o["ctx"] for o in ops} | {o["nested"]["ctx"] for o in ops if o.get("nested")})
        if len(used) < K:
            c = cl()
            remap = {old: new for new, old in enumerate(used)}
            c["ctxs"] = [case["ctxs"][u] for u in used]
            for o in c["ops"]:
                o["ctx"] = remap[o["ctx"]]
                if o.get("nested"):
                    o["nested"]["ctx"] = remap[o["nested"]["ctx"]]
            yield c


def nontrivial_key(case, res):
    if not res.get("fired"):
        return None
    return sha1(normalise(case))[:16]


RULE = ("case i = a seeded history of 3-9 (thorough: 3-25) operations over K in {1,2,3} contexts with independent time/memory "
        "limits: evals committing 1-4 effects (var, function value, indirect eval, new Function, implicit global, built-in "
        "mutation, regex lastIndex, function-local var) and ending normally or in one of %d terminal faults, set, get, "
        "bounded-busy and behavioural probes, 20%% of the evals with an operation nested in a host callable (re-entrant). After "
        "every step every context is observed and compared with a dictionary model and a fault-free twin. Non-trivial = at "
        "least one terminal fault fired; distinct = distinct (limits set, op kinds, contexts, terminals, effect kinds) shapes."
        % (len(TERMINAL_SRC) - 1 + len(NESTED_TERMINALS)))

ASSUMPTIONS = [
    "effects are acknowledged through a host callable; the effect in flight when a fault lands may be present or absent (old or new value, nothing else)",
    "delete of globals and hoisted function declarations are not generated (they deviate on the pinned tree for reasons outside C12)",
    "threaded schedules (one caller thread per context) are not generated in this version; sequential and re-entrant interleavings are",
]


def stats(case, res):
    return {"faults_fired": list(res.get("fired", [])), "ops": len(case["ops"]), "contexts": str(len(case["ctxs"])),
            "reentrant_ops": sum(1 for o in case["ops"] if o.get("nested")),
            "precondition_failed": 1 if any(v["clause"] == "precondition" for v in res.get("violations", [])) else 0}


def sample_view(case):
    return {"index": case["index"], "ctxs": case["ctxs"],
            "ops": [dict(o, src=op_src(o)) if o["op"] == "eval" else o for o in case["ops"]][:6]}
