"""C07 -- exceptions unwind to the right handler; finally runs exactly once.

The program is fixed; the *fault schedule* varies.  A seeded program over a small statement
grammar contains decision points d(k) whose outcome the simulator chooses: the j-th dynamic
decision throws (script-level throw, TypeError on null, call of a non-function, unknown
identifier).  For a program that makes D decisions fault-free, every single-throw schedule
(D <= 40, else a seeded sample) and sampled pairs are run, and the ordered probe log, the
values seen by catch clauses, the results of enclosing expressions and the final outcome are
compared with a reference interpreter (model()) over the same tree and schedule.
"""
import json

import world as W
from common import substream, sha1, run_eval

PROPERTY = "C07"
LEVEL = "fault_enumeration"

FORMS = ("throw_str", "throw_obj", "throw_err", "throw_undef", "throw_null", "null_prop", "call_nonfn", "undef_ident", "null_prop_mid",
         # errors raised by built-ins
         "json_parse", "regexp_ctor", "match_bad_pattern", "reduce_empty")
LOOPS = ("for", "while", "dowhile", "forin", "forof")
NATIVES = ("forEach", "map", "filter", "some", "every", "find", "findIndex", "reduce", "sort",
           "getter", "setter", "valueOf", "call", "apply", "bind",
           # script code run by a nested interpreter: eval of a function call, and a callback that a
           # built-in of a GLOBAL array runs from inside eval code
           "evalfn", "eval_forEach")
CTXS = ("stmt", "plus", "array", "arg", "cond", "assign")

PRELUDE = (
    "var A2=[1,2], O={x:1}, F=function(){ return 0; };\n"
    "function id2(a,b){ return b; }\n"
    "function desc(e){ var r = desc0(e);"
    " if (e && typeof e === 'object') { if (e.zzSeen !== undefined) r += '|already-caught-by:' + e.zzSeen; e.zzSeen = (++zzCatchCount); }"
    " return r; }\n"
    "var zzCatchCount = 0;\n"
    "function desc0(e){ if (typeof e === 'string') return 's:'+e;"
    " if (e instanceof TypeError) return 'TypeError|'+e.name+'|'+(e instanceof Error);"
    " if (e instanceof ReferenceError) return 'ReferenceError|'+e.name+'|'+(e instanceof Error);"
    " if (e instanceof SyntaxError) return 'SyntaxError|'+e.name+'|'+(e instanceof Error);"
    " if (e instanceof RangeError) return 'RangeError|'+e.name+'|'+(e instanceof Error);"
    " if (e instanceof Error) return 'Error|'+e.message;"
    " if (e && typeof e === 'object' && e.tag !== undefined) return 'obj:'+e.tag;"
    " return 'other:'+(typeof e); }\n"
)


# ------------------------------------------------------------------ generation
# operator / operand grid for plain expression statements (no throw possible): every statement must
# leave the operand stack as it found it, whatever the operator and the values
EXPR_VALUES = ("0", "-0", "1", "-1", "0.5", "NaN", "Infinity", "-Infinity", "2147483648", "''", "'0'", "'a'", "true", "false",
               "null", "undefined")   # primitives only: object-to-primitive conversion and ** deviate on the pinned tree (C06/C04)
EXPR_BIN = ("+", "-", "*", "/", "%", "&", "|", "^", "<<", ">>", ">>>", "<", ">", "<=", ">=", "==", "!=", "===", "!==", "&&", "||", ",")
EXPR_UN = ("-", "+", "!", "~", "typeof ", "void ")


def gen_expr(rng, depth=0):
    r = rng.random()
    if depth >= 2 or r < 0.3:
        return rng.choice(EXPR_VALUES)
    if r < 0.45:
        return "(%s(%s))" % (rng.choice(EXPR_UN), gen_expr(rng, depth + 1))
    if r < 0.55:
        return "(%s ? %s : %s)" % (gen_expr(rng, depth + 1), gen_expr(rng, depth + 1), gen_expr(rng, depth + 1))
    op = rng.choice(EXPR_BIN)
    a, b = gen_expr(rng, depth + 1), gen_expr(rng, depth + 1)
    return "(%s %s %s)" % (a, op, b)


class Gen:
    def __init__(self, rng, profile):
        self.rng = rng
        self.pf = profile
        self.k = 0
        self.ids = 0
        # one program in 25 may use the optional catch binding (such programs are skipped as a whole
        # while the engine rejects the form)
        self.nobind_budget = 1 if rng.random() < 0.04 else 0

    def nk(self):
        self.k += 1
        return self.k

    def nid(self):
        self.ids += 1
        return self.ids

    def block(self, depth, ctx, n=None):
        rng = self.rng
        n = n if n is not None else rng.randrange(1, 4)
        out = []
        for _ in range(n):
            out.append(self.stmt(depth, ctx))
        return out

    def cancel(self, ctx):
        """An abrupt exit (return with or without a value, throw, break, continue) taken from inside
        an inner for-in / for-of / switch / plain block that sits in the try or catch block of a
        try statement whose finally block cancels it with break or continue of the enclosing loop:
        the enclosing loop must go on exactly as if the exit had never been attempted."""
        rng = self.rng
        oid = self.nid()
        okind = rng.choice(("forin", "forof", "forof", "for", "while"))
        octx = dict(ctx, loops=ctx["loops"] + [(oid, None, False)])
        exit_kind = rng.choice(("ret", "ret", "retv", "throw", "break", "continue"))

        def mk_exit(inner_loops):
            if exit_kind == "ret":
                return {"t": "ret", "v": None}
            if exit_kind == "retv":
                return {"t": "ret", "v": 10 + self.nk()}
            if exit_kind == "throw":
                return {"t": "d", "k": self.nk(), "form": rng.choice(("throw_str", "throw_err", "null_prop_mid"))}
            return {"t": exit_kind, "loop": oid, "label": None, "cond": None} if not inner_loops else \
                   {"t": exit_kind, "loop": inner_loops[-1], "label": None, "cond": None}
        inner_kind = rng.choice(("forin", "forof", "switch", "none", "forof_switch"))
        body = [{"t": "p", "k": self.nk()}]
        if inner_kind in ("forin", "forof"):
            iid = self.nid()
            body.append({"t": "loop", "id": iid, "kind": inner_kind, "n": rng.randrange(1, 3), "label": None,
                         "b": [{"t": "p", "k": self.nk()}, mk_exit([iid])]})
        elif inner_kind == "switch":
            ex = mk_exit([]) if exit_kind != "break" else {"t": "ret", "v": None}
            body.append({"t": "switch", "id": self.nid(), "v": 1,
                         "cases": [{"test": 1, "b": [{"t": "p", "k": self.nk()}, ex], "brk": False}]})
        elif inner_kind == "forof_switch":
            iid = self.nid()
            ex = mk_exit([iid]) if exit_kind != "break" else {"t": "ret", "v": None}
            body.append({"t": "loop", "id": iid, "kind": "forof", "n": 2, "label": None,
                         "b": [{"t": "switch", "id": self.nid(), "v": 0,
                                "cases": [{"test": None, "b": [{"t": "p", "k": self.nk()}, ex], "brk": False}]}]})
        else:
            body.append(mk_exit([]))
        olabel = None
        cstmt = {"t": rng.choice(("continue", "continue", "break")), "loop": oid, "label": None, "cond": None}
        w = rng.random()
        if w < 0.3 and cstmt["t"] == "continue":
            # the cancelling jump sits in a switch case of the finally block
            cstmt = {"t": "switch", "id": self.nid(), "v": 1,
                     "cases": [{"test": 1, "b": [{"t": "p", "k": self.nk()}, cstmt], "brk": False}]}
        elif w < 0.45:
            olabel = "L%d" % oid
            cstmt = {"t": "switch", "id": self.nid(), "v": 2,
                     "cases": [{"test": 2, "b": [{"t": "break", "loop": oid, "label": olabel, "cond": None}], "brk": False}]}
        elif w < 0.55:
            cstmt = {"t": "lblock", "label": "B%d" % self.nid(), "b": [{"t": "p", "k": self.nk()}, cstmt]}
        fin = [{"t": "p", "k": self.nk()}, cstmt]
        node = {"t": "try", "id": self.nid(), "b": None, "c": None, "f": fin}
        if rng.random() < 0.35:
            # the exit is taken from the catch block instead
            node["b"] = [{"t": "d", "k": self.nk(), "form": "throw_str"}]
            node["c"] = body
        else:
            node["b"] = body
            if rng.random() < 0.3:
                node["c"] = [{"t": "p", "k": self.nk()}]
        return {"t": "loop", "id": oid, "kind": okind, "n": rng.randrange(2, 4), "label": olabel,
                "b": [{"t": "p", "k": self.nk()}, node, {"t": "p", "k": self.nk()}]}

    def stmt(self, depth, ctx):
        """ctx: dict(fn=index, nfn=count, loops=[(id,label)], in_cb=bool)"""
        rng, pf = self.rng, self.pf
        choices = [("p", 3), ("d", 4), ("expr", 1.5)]
        if depth < pf["max_depth"]:
            choices += [("try", 4), ("loop", 2)]
            if pf["natives"]:
                choices.append(("native", 2))
            if pf.get("labels"):
                choices.append(("lblock", 0.5))
            if pf.get("switch", True):
                choices.append(("switch", 0.8))
        if ctx["fn"] + 1 < ctx["nfn"]:
            choices.append(("call", 2))
        if ctx["loops"] and (pf["abrupt_in_try"] or not ctx.get("in_try")):
            # abrupt exits out of a finally block are rare in hand-written code and rich in bugs
            wgt = 3 if ctx.get("in_finally") else 1
            choices += [("continue", wgt)]
            if not ctx.get("in_switch") and ctx["loops"][-1][0] != 0:
                # an unlabelled break inside a switch targets the switch (generated as the
                # case's trailing break), not the loop; loop 0 is the harness loop of C02.B
                choices += [("break", wgt)]
        if ctx.get("in_catch"):
            choices.append(("d", 4))
        if ctx.get("lblocks") and (pf["abrupt_in_try"] or not ctx.get("in_try")):
            choices.append(("breakl", 0.7))
        if (pf["abrupt_in_try"] or not ctx.get("in_try")) and (pf["ret_in_finally"] or not ctx.get("in_finally")):
            choices.append(("ret", 1))
        tot = sum(w for _, w in choices)
        x = rng.uniform(0, tot)
        for name, w in choices:
            x -= w
            if x <= 0:
                break
        if name == "p":
            return {"t": "p", "k": self.nk()}
        if name == "expr":
            return {"t": "expr", "k": self.nk(), "src": gen_expr(rng)}
        if name == "d":
            form = rng.choice(pf["forms"])
            if ctx.get("in_catch") and "null_prop_mid" in pf["forms"] and rng.random() < 0.4:
                form = "null_prop_mid"      # a throw with operands pending, inside a catch clause
            return {"t": "d", "k": self.nk(), "form": form}
        if name == "try":
            shape = rng.choice(pf["try_shapes"])
            c2 = dict(ctx, in_try=True)
            node = {"t": "try", "id": self.nid(), "b": self.block(depth + 1, c2), "c": None, "f": None}
            if "c" in shape:
                c3 = dict(ctx, in_try=ctx.get("in_try") or ("f" in shape), in_catch_with_finally=("f" in shape), in_catch=True)
                if not pf["throw_in_catch_with_finally"] and "f" in shape:
                    node["c"] = [{"t": "p", "k": self.nk()}]
                else:
                    node["c"] = self.block(depth + 1, c3, rng.randrange(1, 3))
            if "f" in shape:
                node["f"] = self.block(depth + 1, dict(ctx, in_finally=True, in_try=ctx.get("in_try")), rng.randrange(1, 3))
            if node["c"] is not None and self.nobind_budget > 0 and rng.random() < 0.3:
                self.nobind_budget -= 1
                node["nobind"] = True
            # blocks that are really empty in the source text (no probe call either)
            if rng.random() < 0.12:
                part = rng.choice([x for x in ("b", "c", "f") if node[x] is not None])
                node[part] = []
                node.setdefault("bare", []).append(part)
            return node
        if name == "loop":
            lid = self.nid()
            kind = rng.choice(pf["loops"])
            label = "L%d" % lid if (pf.get("labels") and rng.random() < 0.3) else None
            n = rng.randrange(1 if kind == "dowhile" else 0, 4)
            c2 = dict(ctx, loops=ctx["loops"] + [(lid, label, bool(ctx.get("in_try")))])
            return {"t": "loop", "id": lid, "kind": kind, "n": n, "label": label, "b": self.block(depth + 1, c2)}
        if name == "switch":
            sid = self.nid()
            ncases = rng.randrange(1, 4)
            tests = rng.sample([0, 1, 2, 3], ncases)
            if rng.random() < 0.5:
                # default last: a default clause placed before other cases is taken without
                # testing them on the pinned tree (a C05 matter, outside this property)
                tests[-1] = None
            c2 = dict(ctx, in_switch=True)
            brk_ok = pf["abrupt_in_try"] or not ctx.get("in_try")
            cases = [{"test": t, "b": self.block(depth + 1, c2, rng.randrange(1, 3)),
                      "brk": bool(brk_ok and rng.random() < 0.6)} for t in tests]
            return {"t": "switch", "id": sid, "v": rng.randrange(0, 4), "cases": cases}
        if name == "lblock":
            lid = self.nid()
            c2 = dict(ctx, lblocks=ctx.get("lblocks", []) + ["B%d" % lid])
            return {"t": "lblock", "label": "B%d" % lid, "b": self.block(depth + 1, c2)}
        if name == "native":
            kind = rng.choice(pf["natives"])
            c2 = dict(ctx, loops=[], lblocks=[], in_try=False, in_finally=False, in_cb=True)
            node = {"t": "native", "k": self.nk(), "kind": kind, "rv": rng.choice((0, 1, 2)),
                    "b": self.block(depth + 1, c2, rng.randrange(1, 3))}
            if kind not in ("getter", "setter", "evalfn", "eval_forEach") and rng.random() < 0.35:
                node["arrow"] = True      # the callback is an arrow function with a block body
            if kind in ("forEach", "map", "filter", "some", "every", "find", "findIndex", "reduce") and rng.random() < 0.2:
                node["kept"] = True
            return node
        if name == "call":
            return {"t": "call", "k": self.nk(), "f": rng.randrange(ctx["fn"] + 1, ctx["nfn"]), "ctx": rng.choice(pf["ctxs"])}
        if name in ("break", "continue"):
            lid, label, _ = rng.choice(ctx["loops"]) if pf.get("labels") else ctx["loops"][-1]
            use_label = label if (label and (lid != ctx["loops"][-1][0] or rng.random() < 0.3)) else None
            if lid != ctx["loops"][-1][0] and not use_label:
                lid, label, _ = ctx["loops"][-1]
            if name == "continue" and use_label:
                use_label = None          # labelled continue is broken for reasons outside C07 (C05)
                lid = ctx["loops"][-1][0]
            return {"t": name, "loop": lid, "label": use_label, "cond": rng.choice((None, 0, 1, 1, 2))}
        if name == "breakl":
            return {"t": "break", "loop": None, "label": rng.choice(ctx["lblocks"]), "cond": None}
        if name == "ret":
            return {"t": "ret", "v": rng.choice((None, 10 + self.nk()))}
        raise AssertionError(name)


PROFILES = {
    # everything C07 talks about
    "full": {"max_depth": 3, "forms": FORMS, "try_shapes": ("c", "f", "cf", "c", "cf"), "loops": LOOPS, "natives": NATIVES,
             "ctxs": CTXS, "abrupt_in_try": True, "ret_in_finally": True, "throw_in_catch_with_finally": True, "labels": True},
    # no native frames
    "nonative": {"max_depth": 3, "forms": FORMS, "try_shapes": ("c", "f", "cf", "c", "cf"), "loops": LOOPS, "natives": (),
                 "ctxs": CTXS, "abrupt_in_try": True, "ret_in_finally": True, "throw_in_catch_with_finally": True, "labels": True},
    # the sub-grammar without abrupt exits from try blocks
    "core": {"max_depth": 3, "forms": FORMS, "try_shapes": ("c", "f", "cf", "c", "cf"), "loops": LOOPS, "natives": (),
             "ctxs": CTXS, "abrupt_in_try": False, "ret_in_finally": False, "throw_in_catch_with_finally": True, "labels": False},
    "core_native": {"max_depth": 3, "forms": FORMS, "try_shapes": ("c", "f", "cf", "c", "cf"), "loops": LOOPS, "natives": NATIVES,
                    "ctxs": CTXS, "abrupt_in_try": False, "ret_in_finally": False, "throw_in_catch_with_finally": True, "labels": False},
}
PROFILES["cancel"] = dict(PROFILES["full"])      # f0 starts with an exit cancelled by a finally block (Gen.cancel)
PROFILE_WEIGHTS = (("full", 3), ("nonative", 2), ("core", 3), ("core_native", 2), ("cancel", 1))


def gen_program(rng, profile_name, outer_loop=False):
    """outer_loop: the body of f0 is going to be inlined in a harness loop (id 0, variable i0)
    that its statements may `continue` (C02 part B)."""
    pf = PROFILES[profile_name]
    g = Gen(rng, pf)
    nfn = rng.randrange(1, 4)
    funcs = []
    for i in range(nfn):
        ctx = {"fn": i, "nfn": nfn, "loops": [(0, None, False)] if (outer_loop and i == 0) else [], "lblocks": []}
        body = g.block(0, ctx, rng.randrange(2, 5))
        if profile_name == "cancel" and i == 0:
            body = [g.cancel(ctx)] + body[:2]
        funcs.append({"id": i, "b": body})
    prog = {"funcs": funcs, "profile": profile_name}
    if outer_loop:
        prog["outer_loop"] = True
    return prog


# ------------------------------------------------------------------ rendering
def _thr(form, k):
    if form == "throw_str":
        return "if (d(%d)) throw 'T%d';" % (k, k)
    if form == "throw_obj":
        return "if (d(%d)) throw {tag:%d};" % (k, k)
    if form == "throw_err":
        return "if (d(%d)) throw new Error('E%d');" % (k, k)
    if form == "throw_undef":
        return "if (d(%d)) throw undefined;" % k
    if form == "throw_null":
        return "if (d(%d)) throw null;" % k
    if form == "null_prop":
        return "(d(%d) ? null : O).x;" % k
    if form == "call_nonfn":
        return "(d(%d) ? 1 : F)();" % k
    if form == "undef_ident":
        return "if (d(%d)) undef_ident_%d;" % (k, k)
    if form == "json_parse":
        return "if (d(%d)) JSON.parse('{bad');" % k
    if form == "regexp_ctor":
        return "if (d(%d)) new RegExp('(');" % k
    if form == "match_bad_pattern":
        return "if (d(%d)) 'abc'.match('[');" % k
    if form == "reduce_empty":
        return "if (d(%d)) [].reduce(function(a,b){ return a; });" % k
    if form == "null_prop_mid":
        # the TypeError is raised in mid-expression, with operands of enclosing expressions pending
        return "pv(%d, id2(4, 5 + [3, (d(%d) ? null : O).x][1]));" % (k, k)
    raise AssertionError(form)


def r_block(stmts, ind):
    return "\n".join(r_stmt(s, ind) for s in stmts)


def r_stmt(s, ind=""):
    t = s["t"]
    i2 = ind + "  "
    if t == "p":
        return "%sp(%d);" % (ind, s["k"])
    if t == "d":
        return ind + _thr(s["form"], s["k"])
    if t == "expr":
        return "%svar x%d = %s; x%d = [1, %s, 2].length; %s;" % (ind, s["k"], s["src"], s["k"], s["src"], s["src"])
    if t == "try":
        out = "%stry {\n%s\n%s}" % (ind, r_block(s["b"], i2), ind)
        bare = s.get("bare", ())
        if s["c"] is not None:
            if "c" in bare:
                out += " catch (e%d) { }" % s["id"] if not s.get("nobind") else " catch { }"
            elif s.get("nobind"):
                # ES2019 optional catch binding: refused by the pinned parser (the whole program is then
                # skipped); if an engine accepts it, it has to mean the same as an unused binding
                out += " catch {\n%spc(%d, 'nobind');\n%s\n%s}" % (i2, s["id"], r_block(s["c"], i2), ind)
            else:
                out += " catch (e%d) {\n%spc(%d, desc(e%d));\n%s\n%s}" % (s["id"], i2, s["id"], s["id"], r_block(s["c"], i2), ind)
        if s["f"] is not None:
            if "f" in bare:
                out += " finally { }"
            else:
                out += " finally {\n%spf(%d);\n%s\n%s}" % (i2, s["id"], r_block(s["f"], i2), ind)
        return out
    if t == "loop":
        i, n, kind = s["id"], s["n"], s["kind"]
        lab = (s["label"] + ": ") if s.get("label") else ""
        body = r_block(s["b"], i2)
        if s.get("nn"):
            # C02 part B, directed shapes: the loop runs NN times (NN and the array BIGA of NN
            # elements are provided by the harness)
            if kind == "for":
                return "%s%sfor (var i%d=0; i%d<NN; i%d++) {\n%s\n%s}" % (ind, lab, i, i, i, body, ind)
            if kind == "while":
                return "%svar i%d=-1;\n%s%swhile (++i%d < NN) {\n%s\n%s}" % (ind, i, ind, lab, i, body, ind)
            if kind == "dowhile":
                return "%svar i%d=-1;\n%s%sdo {\n%si%d++;\n%s\n%s} while (i%d < NN-1);" % (ind, i, ind, lab, i2, i, body, ind, i)
            if kind == "forin":
                return "%svar i%d=-1;\n%s%sfor (var q%d in BIGA) {\n%si%d++;\n%s\n%s}" % (ind, i, ind, lab, i, i2, i, body, ind)
            if kind == "forof":
                return "%svar i%d=-1;\n%s%sfor (var q%d of BIGA) {\n%si%d++;\n%s\n%s}" % (ind, i, ind, lab, i, i2, i, body, ind)
        if kind == "for":
            return "%s%sfor (var i%d=0; i%d<%d; i%d++) {\n%s\n%s}" % (ind, lab, i, i, n, i, body, ind)
        if kind == "while":
            return "%svar i%d=-1;\n%s%swhile (++i%d < %d) {\n%s\n%s}" % (ind, i, ind, lab, i, n, body, ind)
        if kind == "dowhile":
            return "%svar i%d=-1;\n%s%sdo {\n%si%d++;\n%s\n%s} while (i%d < %d);" % (ind, i, ind, lab, i2, i, body, ind, i, n - 1)
        if kind == "forin":
            obj = "{" + ",".join("k%d:1" % j for j in range(n)) + "}"
            return "%svar i%d=-1;\n%s%sfor (var q%d in %s) {\n%si%d++;\n%s\n%s}" % (ind, i, ind, lab, i, obj, i2, i, body, ind)
        if kind == "forof":
            arr = "[" + ",".join(str(j) for j in range(n)) + "]"
            return "%svar i%d=-1;\n%s%sfor (var q%d of %s) {\n%si%d++;\n%s\n%s}" % (ind, i, ind, lab, i, arr, i2, i, body, ind)
    if t == "lblock":
        return "%s%s: {\n%s\n%s}" % (ind, s["label"], r_block(s["b"], i2), ind)
    if t == "switch":
        out = "%sswitch (%d) {\n" % (ind, s["v"])
        for c in s["cases"]:
            out += "%s%s\n%s\n" % (i2, ("case %d:" % c["test"]) if c["test"] is not None else "default:", r_block(c["b"], i2 + "  "))
            if c["brk"]:
                out += "%s  break;\n" % i2
        return out + ind + "}"
    if t in ("break", "continue"):
        kw = t + ((" " + s["label"]) if s.get("label") else "")
        if s.get("cond") is not None and s.get("loop") is not None:
            return "%sif (i%d == %d) %s;" % (ind, s["loop"], s["cond"], kw)
        return "%s%s;" % (ind, kw)
    if t == "ret":
        return "%sreturn%s;" % (ind, "" if s["v"] is None else " %d" % s["v"])
    if t == "call":
        call = "f%d()" % s["f"]
        c = s["ctx"]
        k = s["k"]
        if c == "stmt":
            return "%s%s;" % (ind, call)
        if c == "plus":
            return "%spv(%d, 100 + %s);" % (ind, k, call)
        if c == "array":
            return "%spv(%d, [7, %s, 8]);" % (ind, k, call)
        if c == "arg":
            return "%spv(%d, id2(5, %s));" % (ind, k, call)
        if c == "cond":
            return "%sif (%s) { pv(%d, 1); } else { pv(%d, 0); }" % (ind, call, k, k)
        if c == "assign":
            return "%svar t%d = 3 * %s; pv(%d, t%d);" % (ind, k, call, k, k)
    if t == "native":
        k, kind, rv = s["k"], s["kind"], s["rv"]
        body = r_block(s["b"], i2)
        head = "(a,b) => {" if s.get("arrow") else "function(a,b){"
        fn = "%s\n%s\n%sreturn %d;\n%s}" % (head, body, i2, (rv - 1) if kind == "sort" else rv, ind)
        if kind in ("forEach", "map", "filter", "some", "every", "find", "findIndex", "reduce"):
            if s.get("kept"):
                # the method was taken off an equal array by an EARLIER evaluation (KEPT_SETUP)
                return "%spv(%d, KA_%s(%s));" % (ind, k, kind, fn)
            return "%spv(%d, A2.%s(%s));" % (ind, k, kind, fn)
        if kind == "sort":
            return "%spv(%d, [2,1].sort(%s));" % (ind, k, fn)
        if kind == "getter":
            return "%svar g%d={get g(){\n%s\n%sreturn %d;\n%s}};\n%spv(%d, g%d.g);" % (ind, k, body, i2, rv, ind, ind, k, k)
        if kind == "setter":
            return "%svar g%d={set s(v){\n%s\n%s}};\n%spv(%d, (g%d.s = 5));" % (ind, k, body, ind, ind, k, k)
        if kind == "valueOf":
            return "%svar g%d={valueOf:%s};\n%spv(%d, g%d * 3);" % (ind, k, fn, ind, k, k)
        if kind == "evalfn":
            return "%spv(%d, eval(%s));" % (ind, k, json.dumps("(%s)()" % fn))
        if kind == "eval_forEach":
            return "%spv(%d, eval(%s));" % (ind, k, json.dumps("A2.forEach(%s)" % fn))
        if kind == "call":
            return "%spv(%d, (%s).call(null));" % (ind, k, fn)
        if kind == "apply":
            return "%spv(%d, (%s).apply(null, []));" % (ind, k, fn)
        if kind == "bind":
            return "%spv(%d, (%s).bind(null)());" % (ind, k, fn)
    raise AssertionError(t)


# evaluated on the context BEFORE the program: built-in methods that outlive the evaluation that
# took them off their array
KEPT_SETUP = ("var KA0=[1,2]; var KA_forEach=KA0.forEach, KA_map=KA0.map, KA_filter=KA0.filter, KA_some=KA0.some, "
              "KA_every=KA0.every, KA_find=KA0.find, KA_findIndex=KA0.findIndex, KA_reduce=KA0.reduce; 'setup';")


def render(prog):
    parts = [PRELUDE]
    for f in prog["funcs"]:
        parts.append("function f%d() {\n%s\n}" % (f["id"], r_block(f["b"], "  ")))
    parts.append("pv(0, f0());\n\"end\";")
    return "\n".join(parts)


# ------------------------------------------------------------------ reference model
class JSThrow(Exception):
    def __init__(self, desc, uncaught_text):
        self.desc = desc
        self.text = uncaught_text


class _Break(Exception):
    def __init__(self, label):
        self.label = label


class _Continue(Exception):
    def __init__(self, label):
        self.label = label


class _Return(Exception):
    def __init__(self, v):
        self.v = v


class Model:
    def __init__(self, prog, faults):
        self.prog = prog
        self.faults = set(faults)
        self.n = 0          # dynamic decision counter
        self.log = []
        self.fired_sites = []
        self.trace = []      # decision site of every dynamic decision, in order
        self.steps = 0

    def d(self, s):
        j = self.n
        self.n += 1
        self.trace.append(s["k"])
        if j in self.faults:
            self.fired_sites.append(s["k"])
            form, k = s["form"], s["k"]
            if form == "throw_str":
                raise JSThrow("s:T%d" % k, "T%d" % k)
            if form == "throw_obj":
                raise JSThrow("obj:%d" % k, None)
            if form == "throw_err":
                raise JSThrow("Error|E%d" % k, "E%d" % k)
            if form == "throw_undef":
                raise JSThrow("other:undefined", None)
            if form == "throw_null":
                raise JSThrow("other:object", None)
            if form in ("null_prop", "call_nonfn", "null_prop_mid"):
                raise JSThrow("TypeError|TypeError|true", None)
            if form == "undef_ident":
                raise JSThrow("ReferenceError|ReferenceError|true", "undef_ident_%d" % k)
            if form in ("json_parse", "regexp_ctor", "match_bad_pattern"):
                raise JSThrow("SyntaxError|SyntaxError|true", None)
            if form == "reduce_empty":
                raise JSThrow("TypeError|TypeError|true", None)

    def block(self, stmts, env):
        for s in stmts:
            self.stmt(s, env)

    def call_fn(self, idx):
        try:
            self.block(self.prog["funcs"][idx]["b"], {"iters": {}})
        except _Return as r:
            return r.v
        return None

    def stmt(self, s, env):
        self.steps += 1
        if self.steps > 20000:
            raise RuntimeError("model step cap")
        t = s["t"]
        if t == "expr":
            pass
        elif t == "p":
            self.log.append(["p", s["k"]])
        elif t == "d":
            self.d(s)
            if s["form"] == "null_prop_mid":
                self.log.append(["pv", s["k"], 6])
        elif t == "try":
            self.do_try(s, env)
        elif t == "loop":
            self.do_loop(s, env)
        elif t == "lblock":
            try:
                self.block(s["b"], env)
            except _Break as b:
                if b.label != s["label"]:
                    raise
        elif t == "switch":
            cases = s["cases"]
            start = next((i for i, c in enumerate(cases) if c["test"] == s["v"]), None)
            if start is None:
                start = next((i for i, c in enumerate(cases) if c["test"] is None), None)
            if start is not None:
                for c in cases[start:]:
                    self.block(c["b"], env)
                    if c["brk"]:
                        break
        elif t == "break":
            if s.get("cond") is None or s.get("loop") is None or env["iters"].get(s["loop"]) == s["cond"]:
                raise _Break(s.get("label"))
        elif t == "continue":
            if s.get("cond") is None or env["iters"].get(s["loop"]) == s["cond"]:
                raise _Continue(s.get("label"))
        elif t == "ret":
            raise _Return(s["v"])
        elif t == "call":
            v = self.call_fn(s["f"])
            c = s["ctx"]
            num = v if v is not None else None
            if c == "stmt":
                return
            if c == "plus":
                self.log.append(["pv", s["k"], (100 + num) if num is not None else "NaN"])
            elif c == "array":
                self.log.append(["pv", s["k"], [7, num, 8]])
            elif c == "arg":
                self.log.append(["pv", s["k"], num])
            elif c == "cond":
                self.log.append(["pv", s["k"], 1 if num else 0])
            elif c == "assign":
                self.log.append(["pv", s["k"], (3 * num) if num is not None else "NaN"])
        elif t == "native":
            self.log.append(["pv", s["k"], self.do_native(s)])
        else:
            raise AssertionError(t)

    def do_try(self, s, env):
        bare = s.get("bare", ())

        def fin():
            if s["f"] is not None:
                if "f" not in bare:
                    self.log.append(["pf", s["id"]])
                self.block(s["f"], env)
        try:
            try:
                self.block(s["b"], env)
            except JSThrow as e:
                if s["c"] is None:
                    raise
                if "c" not in bare:
                    self.log.append(["pc", s["id"], e.desc if not s.get("nobind") else "nobind"])
                self.block(s["c"], env)
        except BaseException:
            # abrupt completion of try or catch: finally runs, and its own abrupt completion wins
            fin()
            raise
        fin()

    def do_loop(self, s, env):
        lid, n = s["id"], s["n"]
        i = 0
        first = True
        while True:
            if s["kind"] == "dowhile":
                if not first and not (i < n):
                    break
            else:
                if not (i < n):
                    break
            first = False
            env["iters"][lid] = i
            try:
                self.block(s["b"], env)
            except _Break as b:
                if b.label is None or b.label == s.get("label"):
                    break
                raise
            except _Continue as c:
                if not (c.label is None or c.label == s.get("label")):
                    raise
            i += 1
        if s["kind"] in ("for",):
            env["iters"][lid] = i

    def cb(self, s):
        """one invocation of a native callback body -> return value"""
        try:
            self.block(s["b"], {"iters": {}})
        except _Return as r:
            return r.v
        return s["rv"]

    def do_native(self, s):
        kind = s["kind"]
        if kind == "forEach":
            self.cb(s)
            self.cb(s)
            return None
        if kind == "map":
            return [self.cb(s), self.cb(s)]
        if kind == "filter":
            out = []
            for el in (1, 2):
                if self.cb(s):
                    out.append(el)
            return out
        if kind == "some":
            for el in (1, 2):
                if self.cb(s):
                    return True
            return False
        if kind == "every":
            for el in (1, 2):
                if not self.cb(s):
                    return False
            return True
        if kind == "find":
            for el in (1, 2):
                if self.cb(s):
                    return el
            return None
        if kind == "findIndex":
            for i, el in enumerate((1, 2)):
                if self.cb(s):
                    return i
            return -1
        if kind == "reduce":
            return self.cb(s)
        if kind == "sort":
            # comparator(a, b) is called once for [2,1]; it returns rv-1 unless the body returns
            try:
                self.block(s["b"], {"iters": {}})
                r = s["rv"] - 1
            except _Return as rr:
                r = rr.v
            r = r if isinstance(r, int) else 0
            return "sorted"
        if kind == "getter":
            return self.cb(s)
        if kind == "setter":
            self.cb(s)
            return 5
        if kind == "valueOf":
            v = self.cb(s)
            return (v * 3) if isinstance(v, int) else "NaN"
        if kind in ("call", "apply", "bind", "evalfn"):
            return self.cb(s)
        if kind == "eval_forEach":
            self.cb(s)
            self.cb(s)
            return None
        raise AssertionError(kind)


def model(prog, faults):
    m = Model(prog, faults)
    try:
        v = m.call_fn(0)
        m.log.append(["pv", 0, v])
        outcome = ["value", "end"]
    except JSThrow as e:
        outcome = ["uncaught", e.desc, e.text]
    except _Continue:
        outcome = ["value", "end"]      # `continue` of the harness loop (C02 part B programs)
    return {"log": m.log, "outcome": outcome, "decisions": m.n, "fired": m.fired_sites, "trace": m.trace}


# ------------------------------------------------------------------ execution
def _canon_pv(v):
    v = W.canon(v)
    return v


def run_engine(src, faults, cap=3_000_000):
    """-> dict(log, outcome kind/cls/msg/value, decisions)"""
    W.install()
    from microjs import Context
    from microjs.values import JSArray, JSObject, UNDEFINED, NULL
    W.reset()
    ctx = Context()
    log = []
    st = {"n": 0}
    fs = set(faults)

    def tojs(v):
        if v is UNDEFINED or v is None or v is NULL:
            return None
        if isinstance(v, JSArray):
            return [tojs(x) for x in v._elements]
        if isinstance(v, float):
            if v != v:
                return "NaN"
            if v == int(v):
                return int(v)
        if isinstance(v, (bool, int, float, str)):
            return v
        return "<" + type(v).__name__ + ">"

    def p(*a):
        log.append(["p", tojs(a[0]) if a else None])

    def pv(*a):
        val = tojs(a[1]) if len(a) > 1 else None
        k = tojs(a[0]) if a else None
        log.append(["pv", k, val])

    def pc(*a):
        log.append(["pc", tojs(a[0]) if a else None, tojs(a[1]) if len(a) > 1 else None])

    def pf(*a):
        log.append(["pf", tojs(a[0]) if a else None])

    def d(*a):
        j = st["n"]
        st["n"] += 1
        return j in fs

    for name, fn in (("p", p), ("pv", pv), ("pc", pc), ("pf", pf), ("d", d)):
        ctx.set(name, fn)
    counting = W.S.counting
    W.S.counting = False
    try:
        ctx.eval(KEPT_SETUP)
    finally:
        W.S.counting = counting
    out = run_eval(ctx, src, cap)
    return {"log": log, "kind": out["kind"], "cls": out.get("cls"), "msg": out.get("msg"), "value": out.get("value"),
            "decisions": st["n"], "work": out["end_work"] - out["start_work"]}


def _norm_log(log):
    out = []
    for e in log:
        e = list(e)
        if e[0] == "pv" and isinstance(e[2], list) and e[2] and e[2] == sorted(e[2]) and False:
            pass
        out.append(e)
    return out


def compare(mo, en, prog):
    """-> list of violations (clause, detail)"""
    v = []
    mlog = [list(e) for e in mo["log"]]
    elog = [list(e) for e in en["log"]]
    # the sort result is logged by the model as "sorted": only that a result was logged matters
    for L in (mlog,):
        pass
    for i, e in enumerate(mlog):
        if e[0] == "pv" and e[2] == "sorted" and i < len(elog) and elog[i][0] == "pv" and isinstance(elog[i][2], list):
            elog[i][2] = "sorted"
    if en["kind"] == "host_exc":
        v.append({"clause": "C07.host", "detail": "foreign exception escaped eval: %s: %s" % (en["cls"], en["msg"])})
        return v
    if en["kind"] in ("cap", "limit_time", "limit_mem"):
        v.append({"clause": "C07.log", "detail": "program did not finish (%s); model expects %d log entries" % (en["kind"], len(mlog))})
        return v
    if _uses_nobind(prog) and not _supports_nobind():
        return v        # syntax this engine does not accept (wherever the refusal surfaces): nothing to compare
    if en["kind"] == "js_syntax" and not (mo["outcome"][0] == "uncaught" and mo["outcome"][1].startswith("SyntaxError")):
        v.append({"clause": "C07.log", "detail": "program rejected or failed to compile: %s" % en["msg"]})
        return v
    if mlog != elog:
        # value-only difference?
        if len(mlog) == len(elog) and all(a[:2] == b[:2] for a, b in zip(mlog, elog)) and \
                all(a == b or a[0] == "pc" for a, b in zip(mlog, elog)):
            i = next(i for i, (a, b) in enumerate(zip(mlog, elog)) if a != b)
            v.append({"clause": "C07.value", "detail": "catch clause %s saw %r, expected %r" % (mlog[i][1], elog[i][2], mlog[i][2])})
        elif len(mlog) == len(elog) and all(a[:2] == b[:2] for a, b in zip(mlog, elog)):
            i = next(i for i, (a, b) in enumerate(zip(mlog, elog)) if a != b)
            v.append({"clause": "C07.operands", "detail": "entry %d: engine %r, expected %r" % (i, elog[i], mlog[i])})
        else:
            i = 0
            while i < min(len(mlog), len(elog)) and mlog[i] == elog[i]:
                i += 1
            v.append({"clause": "C07.log", "detail": "logs diverge at entry %d: engine %r, expected %r (engine ended in %s %s)" % (
                i, elog[i] if i < len(elog) else "<end>", mlog[i] if i < len(mlog) else "<end>", en["kind"], (en["msg"] or "")[:80])})
        return v
    mk = mo["outcome"][0]
    if mk == "value":
        if not (en["kind"] == "value" and en["value"] == "end"):
            v.append({"clause": "C07.log", "detail": "model completes normally, engine ended in %s %s: %s" % (en["kind"], en["cls"], en["msg"])})
    else:
        if en["kind"] not in ("js_error", "js_syntax"):
            v.append({"clause": "C07.uncaught", "detail": "uncaught %s must make eval raise JSError; engine ended in %s %r" % (
                mo["outcome"][1], en["kind"], en.get("value"))})
        else:
            text = mo["outcome"][2]
            if en["cls"] not in ("JSError", "JSSyntaxError", "JSTypeError", "JSReferenceError", "JSRangeError"):
                v.append({"clause": "C07.uncaught", "detail": "uncaught %s raised %s instead of JSError" % (mo["outcome"][1], en["cls"])})
            elif text and text not in (en["msg"] or ""):
                v.append({"clause": "C07.uncaught", "detail": "JSError message %r does not describe the thrown value %r" % (en["msg"], text)})
    return v


def handler_sites(prog):
    """Decision sites that sit lexically inside a catch or finally clause."""
    out = set()

    def visit(s, path):
        if s["t"] == "d" and any(p.startswith("try.c") or p == "try.f" for p in path):
            out.add(s["k"])
    for f in prog["funcs"]:
        _walk(f["b"], visit)
    return out


_NOBIND = []


def _supports_nobind():
    """Does the engine under test accept `catch { }` (asked once per process)?"""
    if not _NOBIND:
        from microjs import Context
        counting = W.S.counting
        W.S.counting = False
        try:
            Context().eval("try { } catch { }")
            _NOBIND.append(True)
        except Exception:
            _NOBIND.append(False)
        finally:
            W.S.counting = counting
    return _NOBIND[0]


def _uses_nobind(prog):
    found = []

    def visit(st, path):
        if st["t"] == "try" and st.get("nobind"):
            found.append(1)
    for f in prog["funcs"]:
        _walk(f["b"], visit)
    return bool(found)


def targeted_pairs(prog, singles, limit):
    """For a throw at decision j, a second throw at the first later decision that runs inside
    a catch or finally clause (throw from the catch clause, throw while finally runs)."""
    hs = handler_sites(prog)
    out = []
    if not hs:
        return out
    for j in singles:
        try:
            tr = model(prog, [j])["trace"]
        except RuntimeError:
            continue
        for j2 in range(j + 1, len(tr)):
            if tr[j2] in hs:
                out.append([j, j2])
                break
        if len(out) >= limit:
            break
    return out


def schedules_for(prog, D, rng, tier):
    sch = [[]]
    singles = list(range(D))
    if D > 40:
        singles = sorted(rng.sample(singles, 40))
    sch += [[j] for j in singles]
    sch += targeted_pairs(prog, singles, 12 if tier == "quick" else 60)
    npairs = 6 if tier == "quick" else 20
    for _ in range(npairs if D >= 1 else 0):
        j1 = rng.randrange(D)
        # the second throw is placed within the decisions that follow the first one
        sch.append([j1, j1 + rng.randrange(1, 6)])
    return sch


def n_cases(tier):
    return 1600 if tier == "quick" else 12000


def gen_case(seed, i, tier="quick"):
    rng = substream(seed, "c07", i)
    import os
    only = [x for x in os.environ.get("SIMJS_C07_PROFILES", "").split(",") if x]
    weights = [(n, w) for n, w in PROFILE_WEIGHTS if not only or n in only]
    tot = sum(w for _, w in weights)
    x = rng.uniform(0, tot)
    for name, w in weights:
        x -= w
        if x <= 0:
            break
    prog = gen_program(rng, name)
    return {"property": PROPERTY, "seed": seed, "index": i, "tier": tier, "prog": prog, "schedules": None, "src": render(prog)}


def expand_schedules(case):
    sched = case.get("schedules")
    if sched is None:
        base = model(case["prog"], [])
        rng = substream(case.get("seed", 0), "c07sched", case.get("index", 0))
        sched = schedules_for(case["prog"], base["decisions"], rng, case.get("tier", "quick"))
    return sched


def execute(case):
    prog = case["prog"]
    src = render(prog)
    viol = []
    runs = 0
    digests = []
    per = []
    sched = expand_schedules(case)
    crossed_native = 0
    fired_total = 0
    work_total = 0
    fired_forms = {}
    site_form = {}
    site_ctx = {}

    def _visit(st, path):
        if st["t"] == "d":
            site_form[st["k"]] = st["form"]
            site_ctx[st["k"]] = path
    for f in prog["funcs"]:
        _walk(f["b"], _visit)
    reach = set()
    for fs in sched:
        try:
            mo = model(prog, fs)
        except RuntimeError:
            continue
        en = run_engine(src, fs)
        runs += 1
        vs = compare(mo, en, prog)
        fired_total += len(mo["fired"])
        work_total += en.get("work", 0)
        for k in mo["fired"]:
            fm = site_form.get(k, "?")
            fired_forms[fm] = fired_forms.get(fm, 0) + 1
            pth = site_ctx.get(k, ())
            if any(x.startswith("native") for x in pth):
                reach.add("throw-inside-native-callback")
            if any(x == "try.f" for x in pth):
                reach.add("throw-while-finally-runs")
            if any(x.startswith("try.c") for x in pth):
                reach.add("throw-from-catch-clause")
        if mo["outcome"][0] == "uncaught":
            reach.add("uncaught-to-embedder")
        digests.append(sha1([fs, en["log"], en["kind"], en["msg"]]))
        if vs:
            for x in vs:
                x = dict(x, schedule=fs)
                viol.append(x)
        per.append({"faults": fs, "ok": not vs})
    res = {"runs": runs, "violations": viol[:50], "n_violating": len({tuple(x["schedule"]) for x in viol}),
           "schedules": len(sched), "fired": fired_total, "digest": sha1(digests), "work": work_total,
           "fired_forms": fired_forms, "reach": sorted(reach),
           "first_bad": (viol[0]["schedule"] if viol else None)}
    return res


def violation_clauses(res):
    return sorted({v["clause"] for v in res.get("violations", []) if v["clause"].startswith("C07.")})


# ------------------------------------------------------------------ minimisation / signature
def _walk(stmts, fn, path=()):
    for s in stmts:
        fn(s, path)
        t = s["t"]
        if t == "try":
            _walk(s["b"], fn, path + ("try.b",))
            if s["c"] is not None:
                _walk(s["c"], fn, path + ("try.c+f" if s["f"] is not None else "try.c",))
            if s["f"] is not None:
                _walk(s["f"], fn, path + ("try.f",))
        elif t == "loop":
            _walk(s["b"], fn, path + ("loop:" + s["kind"],))
        elif t == "lblock":
            _walk(s["b"], fn, path + ("lblock",))
        elif t == "switch":
            for c in s["cases"]:
                _walk(c["b"], fn, path + ("switch",))
        elif t == "native":
            _walk(s["b"], fn, path + ("native:" + s["kind"],))


def features(case, res=None):
    prog = case["prog"]
    feats = set()
    sched = case.get("schedules") or [[]]
    fired = set()
    for fs in sched:
        try:
            fired |= set(model(prog, fs)["fired"])
        except RuntimeError:
            pass
    if not any(sched):
        feats.add("fault-free")

    def visit(s, path):
        t = s["t"]
        inside = [p for p in path]
        if t in ("break", "continue", "ret"):
            # which try parts does this abrupt exit leave?
            for pth in inside:
                if pth.startswith("try"):
                    feats.add("%s-in-%s" % (t, pth))
            if not any(pth.startswith("try") for pth in inside):
                feats.add(t)
            if s.get("label"):
                feats.add("label")
        elif t == "d":
            if s["k"] in fired:
                feats.add("fault:" + s["form"])
                ctxp = [p for p in inside if not p.startswith("loop") and p not in ("lblock", "switch")]
                feats.add("fault@" + (">".join(ctxp) if ctxp else "plain"))
            else:
                feats.add("d")
        elif t == "try":
            feats.add("try:" + ("c" if s["c"] is not None else "") + ("f" if s["f"] is not None else ""))
            for part in s.get("bare", ()):
                feats.add("empty-block:" + part)
        elif t == "loop":
            feats.add("loop:" + s["kind"])
        elif t == "native":
            feats.add("native:" + s["kind"])
            if s.get("arrow"):
                feats.add("arrow-callback")
        elif t == "call":
            feats.add("call:" + s["ctx"])
        elif t == "lblock":
            feats.add("lblock")
        elif t == "switch":
            feats.add("switch")
    for f in prog["funcs"]:
        _walk(f["b"], visit, ("fn%d" % f["id"],) if f["id"] else ())
    feats = {x.replace("fn1>", "fn>").replace("fn2>", "fn>") for x in feats}
    if len(prog["funcs"]) > 1:
        feats.add("funcs>1")
    return sorted(feats)


def normalise(case):
    # renumber probe ids in order of appearance
    txt = json.dumps(case["prog"]["funcs"], sort_keys=True)
    return {"prog": txt, "schedules": case.get("schedules")}


def _clone(case):
    return json.loads(json.dumps(case))


def _blocks(prog):
    """All statement lists of the program (mutable references)."""
    out = []

    def rec(stmts):
        out.append(stmts)
        for s in stmts:
            t = s["t"]
            if t == "try":
                rec(s["b"])
                if s["c"] is not None:
                    rec(s["c"])
                if s["f"] is not None:
                    rec(s["f"])
            elif t in ("loop", "lblock", "native"):
                rec(s["b"])
            elif t == "switch":
                for c in s["cases"]:
                    rec(c["b"])
    for f in prog["funcs"]:
        rec(f["b"])
    return out


def _fix_calls(prog):
    """Calls must target existing functions; drop calls to removed ones."""
    n = len(prog["funcs"])
    for bl in _blocks(prog):
        bl[:] = [s for s in bl if not (s["t"] == "call" and s["f"] >= n)]


def shrink_candidates(case):
    for c in _shrink_candidates(case):
        if c is not None and valid(c["prog"]):
            c["src"] = render(c["prog"])
            yield c


def _shrink_candidates(case):
    """Structurally smaller (program, schedule) pairs."""
    prog = case["prog"]
    sched = case.get("schedules")
    # 0. a single schedule
    if sched is None or len(sched) > 1:
        for fs in expand_schedules(case):
            c = _clone(case)
            c["schedules"] = [fs]
            yield c
        return
    fs = sched[0]
    # 1. fewer faults
    if len(fs) > 1:
        for j in range(len(fs)):
            c = _clone(case)
            c["schedules"] = [fs[:j] + fs[j + 1:]]
            yield c
    # 2. drop the last function if unused / drop statements
    nb = len(_blocks(prog))
    for bi in range(nb):
        bl = _blocks(prog)[bi]
        for si in range(len(bl)):
            c = _clone(case)
            b2 = _blocks(c["prog"])[bi]
            removed = b2.pop(si)
            yield _resched(c, case)
            # replace a compound statement by its body
            if removed["t"] in ("loop", "lblock", "try", "native"):
                c2 = _clone(case)
                b3 = _blocks(c2["prog"])[bi]
                inner = b3[si]["b"]
                if removed["t"] in ("loop", "native", "lblock"):
                    inner = [x for x in inner if x["t"] not in ("break", "continue")] if removed["t"] == "loop" else inner
                    if removed["t"] == "native":
                        inner = [x for x in inner if x["t"] != "ret"]
                b3[si:si + 1] = inner
                yield _resched(c2, case)
            if removed["t"] == "try":
                for part in ("c", "f"):
                    if removed[part] is not None:
                        c3 = _clone(case)
                        _blocks(c3["prog"])[bi][si][part] = None
                        if c3["prog"]["funcs"] and (_blocks(c3["prog"])[bi][si]["c"] is not None or _blocks(c3["prog"])[bi][si]["f"] is not None):
                            yield _resched(c3, case)
    # 3. simplify leaves
    for bi in range(nb):
        bl = _blocks(prog)[bi]
        for si, s in enumerate(bl):
            if s["t"] == "d" and s["form"] != "throw_str":
                c = _clone(case)
                _blocks(c["prog"])[bi][si]["form"] = "throw_str"
                yield c
            if s["t"] == "loop" and s["kind"] != "for":
                c = _clone(case)
                _blocks(c["prog"])[bi][si]["kind"] = "for"
                yield c
            if s["t"] == "loop" and s["n"] > 1:
                c = _clone(case)
                _blocks(c["prog"])[bi][si]["n"] = 1
                yield _resched(c, case)
            if s["t"] == "native" and s.get("arrow"):
                c = _clone(case)
                _blocks(c["prog"])[bi][si].pop("arrow")
                yield c
            if s["t"] == "native" and s["kind"] != "forEach":
                c = _clone(case)
                _blocks(c["prog"])[bi][si]["kind"] = "forEach"
                yield _resched(c, case)
            if s["t"] == "call" and s["ctx"] != "stmt":
                c = _clone(case)
                _blocks(c["prog"])[bi][si]["ctx"] = "stmt"
                yield c
            if s["t"] in ("break", "continue") and s.get("cond") is not None:
                c = _clone(case)
                _blocks(c["prog"])[bi][si]["cond"] = None
                yield _resched(c, case)
    # 4. drop trailing functions
    if len(prog["funcs"]) > 1:
        c = _clone(case)
        c["prog"]["funcs"].pop()
        _fix_calls(c["prog"])
        yield _resched(c, case)


def valid(prog):
    """Every break/continue has its target (loop or labelled block) as an ancestor inside the same
    function or callback, and every call targets an existing later function."""
    nf = len(prog["funcs"])

    def rec(stmts, loops, labels, fn):
        for s in stmts:
            t = s["t"]
            if t in ("break", "continue"):
                if s.get("label"):
                    if s["label"] not in labels:
                        return False
                    if t == "continue":
                        return False
                elif not loops:
                    return False
                if s.get("cond") is not None and s.get("loop") not in loops:
                    return False
            elif t == "call":
                if not (fn < s["f"] < nf):
                    return False
            elif t == "try":
                for part in ("b", "c", "f"):
                    if s[part] is not None and not rec(s[part], loops, labels, fn):
                        return False
            elif t == "loop":
                if not rec(s["b"], loops + [s["id"]], labels + ([s["label"]] if s.get("label") else []), fn):
                    return False
            elif t == "lblock":
                if not rec(s["b"], loops, labels + [s["label"]], fn):
                    return False
            elif t == "switch":
                for c in s["cases"]:
                    if not rec(c["b"], loops, labels, fn):
                        return False
            elif t == "native":
                if not rec(s["b"], [], [], fn):
                    return False
        return True
    return all(rec(f["b"], [0] if (prog.get("outer_loop") and f["id"] == 0) else [], [], f["id"]) for f in prog["funcs"])


def _resched(c, orig):
    try:
        if not valid(c["prog"]):
            return None
        return _resched0(c, orig)
    except (_Break, _Continue, _Return, JSThrow, RuntimeError):
        return None


def _resched0(c, orig):
    """After a structural change the dynamic indices shift: keep 'the same sites throw' by
    re-deriving the schedule from the set of decision sites that fired in the original."""
    fs = orig["schedules"][0]
    c["src"] = render(c["prog"])
    if not fs:
        c["schedules"] = [[]]
        return c
    try:
        sites = model(orig["prog"], fs)["fired"]
    except RuntimeError:
        return c
    # find a schedule of the same size on the new program that fires the same sites
    try:
        D = model(c["prog"], [])["decisions"]
    except RuntimeError:
        return c
    want = list(sites)
    cand = []
    # greedy: first dynamic index at which the first wanted site fires, etc.
    cur = []
    for target in want:
        found = None
        for j in range((cur[-1] + 1) if cur else 0, min(D + 8, 200)):
            try:
                m = model(c["prog"], cur + [j])
            except RuntimeError:
                break
            if len(m["fired"]) == len(cur) + 1 and m["fired"][-1] == target:
                found = j
                break
        if found is None:
            break
        cur.append(found)
    c["schedules"] = [cur] if len(cur) == len(want) else [fs]
    return c


MIN_BUDGET = 400


def split_for_minimise(case, res):
    """The driver minimises (case, clause); for C07 the case is first narrowed to one schedule."""
    return None


def nontrivial_key(case, res):
    if not res.get("fired"):
        return None
    return sha1(case["prog"]["funcs"])[:16]


RULE = ("case i = one seeded program (1-3 functions, try/catch/finally nesting <= 3, five loop kinds, labelled blocks, "
        "break/continue/return, calls in six expression contexts, 15 kinds of native frame) drawn from one of four grammar "
        "profiles, run under every single-throw schedule (all D decisions when D <= 40) plus sampled pairs and the fault-free "
        "control; 'evaluations' counts programs, aggregates.schedule_runs counts (program, schedule) executions. Non-trivial = at "
        "least one injected throw fired; distinct = distinct program trees.")

ASSUMPTIONS = [
    "the reference interpreter (c07.Model) is the ECMAScript completion-record semantics of the generated sub-language",
    "location shift by k lines/columns and the full catalogue of raising built-ins are input-only and not claimed",
    "labelled continue is not generated (it never terminates on the pinned tree for reasons outside C07)",
]


def stats(case, res):
    feats = [f for f in features(case) if f.split(":")[0] in ("native", "loop", "try", "switch", "lblock", "arrow-callback")
             or "-in-try" in f]
    out = {"schedule_runs": res["runs"], "violating_schedules": res["n_violating"],
           "throws_fired": res["fired"], "profile": case["prog"]["profile"],
           "faults_fired": [], "reach_probes": list(res.get("reach", [])), "program_features": feats}
    for fm, n in (res.get("fired_forms") or {}).items():
        out["faults_fired"] += [fm] * n
    return out


def sample_view(case):
    return {"index": case["index"], "profile": case["prog"]["profile"], "src": case["src"]}
