#!/venv/bin/python
"""Development tool: hand-written mutants (DESIGN section 4 "mutants it must catch").

Each mutant is a textual replacement applied to a scratch worktree of /repo HEAD under
/var/tmp; the owning quick check is run against that worktree (SIMJS_REPO_SRC), never
against /repo.  Prints CAUGHT / MISSED per mutant.  `--suite` also runs the test suite on
each mutant (slow) to confirm it still passes.
"""
import argparse
import os
import shutil
import subprocess
import sys
import time

VERIF = os.path.dirname(os.path.dirname(os.path.abspath(__file__)))
PY = "/venv/bin/python"

M = []


def m(name, pid, path, old, new, count=1):
    M.append((name, pid, path, old, new, count))


VM = "src/microjs/vm.py"
CTX = "src/microjs/context.py"
CMP = "src/microjs/compiler.py"
RVM = "src/microjs/regex/vm.py"

# ---- C01
m("c01-no-check-main-loop", "C01", VM, "        while self.call_stack:\n            self._check_limits()\n", "        while self.call_stack:\n")
m("c01-no-check-callback-loop", "C01", VM, "            while len(self.call_stack) > call_stack_len:\n                self._check_limits()\n", "            while len(self.call_stack) > call_stack_len:\n")
m("c01-poll-every-1e6", "C01", VM, "self.instruction_count % 1000 == 0", "self.instruction_count % 1000000 == 0")
m("c01-compare-flipped", "C01", VM, "if time.monotonic() - self.start_time > self.time_limit:\n                raise TimeLimitError", "if time.monotonic() - self.start_time < self.time_limit:\n                raise TimeLimitError")
m("c01-wall-clock", "C01", VM, "if time.monotonic() - self.start_time > self.time_limit:\n                raise TimeLimitError", "if time.time() - self.start_time > self.time_limit:\n                raise TimeLimitError")
m("c01-match-string-pattern-no-poll", "C01", VM, 'regex_internal = InternalRegExp(to_string(pattern), "", poll_callback)\n                is_global = False', 'regex_internal = InternalRegExp(to_string(pattern), "", None)\n                is_global = False')
m("c01-test-no-translation", "C01", VM, "            try:\n                return re.test(string)\n            except RegexTimeoutError:\n                raise TimeLimitError(\"Regex execution timeout\")", "            return re.test(string)")
m("c01-nested-vm-restarts-clock", "C01", VM, "        if self.start_time is None:\n            self.start_time = time.monotonic()", "        self.start_time = time.monotonic()")
m("c01-eval-swallows-limit", "C01", CTX, "                return vm.run(bytecode_module)\n            except (TimeLimitError, MemoryLimitError):\n                raise\n", "                return vm.run(bytecode_module)\n")
m("c01-reenter-clears-vm", "C01", CTX, "            self._current_vm = previous_vm", "            self._current_vm = None")
# ---- C02
m("c02-no-memory-check", "C02", VM, "            if mem_used > self.memory_limit:", "            if False and mem_used > self.memory_limit:")
m("c02-estimate-x1000", "C02", VM, "mem_used = len(self.stack) * 100 + len(self.call_stack) * 200", "mem_used = len(self.stack) * 100000 + len(self.call_stack) * 200000")
m("c02-estimate-div1000", "C02", VM, "mem_used = len(self.stack) * 100 + len(self.call_stack) * 200", "mem_used = (len(self.stack) * 100 + len(self.call_stack) * 200) // 1000")
m("c02-throw-no-truncate", "C02", VM, "            del self.stack[stack_depth:]\n", "")
m("c02-return-no-truncate", "C02", VM, "            popped_frame = self.call_stack.pop()\n            # Discard operands the frame still had pending (e.g. the iterator\n            # of a for-in loop that is left by this return)\n            del self.stack[popped_frame.bp :]\n", "            popped_frame = self.call_stack.pop()\n")
m("c02-tryend-noop", "C02", VM, "            if self.exception_handlers:\n                self.exception_handlers.pop()\n\n        elif op == OpCode.CATCH:", "            pass\n\n        elif op == OpCode.CATCH:")
m("c02-recursionerror-escapes", "C02", VM, "        except RecursionError:\n", "        except ZeroDivisionError:\n")
m("c02-switch-break-leaks", "C02", CMP, "            self._patch_jump(jump_end)\n            # Patch break jumps here: a break also has to pop the discriminant\n            for pos in loop_ctx.break_jumps:\n                self._patch_jump(pos)\n            self._emit(OpCode.POP)  # Pop discriminant\n", "            self._patch_jump(jump_end)\n            self._emit(OpCode.POP)  # Pop discriminant\n            for pos in loop_ctx.break_jumps:\n                self._patch_jump(pos)\n")
# ---- C07
m("c07-throw-pops-outermost-handler", "C07", VM, "frame_idx, catch_ip, stack_depth = self.exception_handlers.pop()", "frame_idx, catch_ip, stack_depth = self.exception_handlers.pop(0)")
m("c07-no-frame-unwind", "C07", VM, "            while len(self.call_stack) > frame_idx + 1:\n                self.call_stack.pop()\n", "")
m("c07-catch-block-unprotected", "C07", CMP, "                    rethrow_handler = self._emit_jump(OpCode.TRY_START)\n                    try_ctx.handler_active = True", "                    rethrow_handler = self._emit_jump(OpCode.JUMP_IF_TRUE)\n                    try_ctx.handler_active = True")
m("c07-no-typeerror-conversion-main", "C07", VM, "            except JSTypeError as e:\n                # Convert Python JSTypeError to JavaScript TypeError\n                self._handle_python_exception(\"TypeError\", str(e))\n", "")
m("c07-native-throw-not-propagated", "C07", VM, "                raise _ThrowThroughNative(exc)\n", "                pass\n")
m("c07-error-proto-unlinked", "C07", CTX, "            self._globals[error_name].get(\"prototype\")._prototype = (\n                base_error_prototype\n            )", "            pass")
# ---- C10
m("c10-no-step-limit", "C10", RVM, "            if step_count > self.step_limit:\n                return None  # Fail gracefully on ReDoS", "            if False:\n                return None")
m("c10-no-check-advance", "C10", RVM, "                if reg_idx < len(registers) and registers[reg_idx] == sp:\n                    # Position didn't advance - fail to prevent infinite loop", "                if False:\n                    # Position didn't advance - fail to prevent infinite loop")
m("c10-stack-overflow-plain-exception", "C10", RVM, "class RegexStackOverflow(MemoryLimitError):", "class RegexStackOverflow(Exception):")
m("c10-lookbehind-no-step-limit", "C10", RVM, "            # Same hard step limit as the main loop (ReDoS protection)\n            if step_count > self.step_limit:\n                return False\n", "")
# ---- C12
m("c12-globals-class-attribute", "C12", CTX, "        self._globals: Dict[str, JSValue] = {}\n", "        self._globals: Dict[str, JSValue] = Context._shared_globals\n")
m("c12-globals-copied-into-vm", "C12", CTX, "        # Share globals with VM (don't copy - allows nested eval to modify globals)\n        vm.globals = self._globals\n", "        vm.globals = dict(self._globals)\n")
m("c12-math-module-level", "C12", CTX, "        self._globals[\"Math\"] = self._create_math_object()", "        self._globals[\"Math\"] = _SHARED.setdefault(\"Math\", self._create_math_object())")
m("c12-eval-fn-own-globals", "C12", CTX, "                vm = VM(ctx.memory_limit, ctx.time_limit)\n                vm.globals = ctx._globals\n", "                vm = VM(ctx.memory_limit, ctx.time_limit)\n                vm.globals = dict(ctx._globals)\n")
m("c12-error-proto-shared", "C12", CTX, "        error_prototype = JSObject()\n        error_prototype.set(\"name\", error_name)", "        error_prototype = _SHARED.setdefault(\"proto_\" + error_name, JSObject())\n        error_prototype.set(\"name\", error_name)")
# ---- C15
m("c15-free-var-order-by-set", "C15", VM, "                    for var_name in compiled_func.free_vars:", "                    for var_name in list(set(compiled_func.free_vars)):")
# ---- mutants re-anchored after the fix commits rewrote the code they touch
POLL_BLOCK = ("            self._steps_to_poll -= 1\n            if self._steps_to_poll <= 0:\n                self._steps_to_poll = self.poll_interval\n"
              "                if self.poll_callback and self.poll_callback():\n                    raise RegexTimeoutError(\"Regex execution timed out\")\n")


def _only_main_loop_polls(src):
    first = src.index(POLL_BLOCK) + len(POLL_BLOCK)
    return src[:first] + src[first:].replace(POLL_BLOCK, "")


m("c01-regex-rebinding-drops-callback", "C01", VM, "            regex_internal._poll_callback = (\n                lambda: time.monotonic() - self.start_time > self.time_limit\n            )", "            regex_internal._poll_callback = None")
m("c01-lookaround-loops-never-poll", "C01", RVM, _only_main_loop_polls, None)
m("c02-exit-cleanup-no-pops", "C02", CMP, "                if pop_operands:\n                    for _ in range(saved_loop_stack[li].stack_items):\n                        self._emit(OpCode.POP)\n                li -= 1\n            elif ti > stop_try:", "                li -= 1\n            elif ti > stop_try:")
m("c07-exit-cleanup-skips-innermost-try", "C07", CMP, "        ti = len(saved_try_stack) - 1\n        while li > stop_loop or ti > stop_try:", "        ti = len(saved_try_stack) - 2\n        while li > stop_loop or ti > stop_try:")
m("c07-break-runs-all-finalizers", "C07", CMP, "            stop_try = target.try_depth - 1", "            stop_try = -1")
m("c02-return-value-not-parked", "C02", CMP, "                    self._emit(OpCode.STORE_LOCAL, slot)\n                    self._emit(OpCode.POP)\n                    self._emit_exit_cleanup()\n                    self._emit(OpCode.LOAD_LOCAL, slot)", "                    self._emit_exit_cleanup(pop_operands=False)")
m("c07-finally-inlined-in-exit-site-loops", "C07", CMP, "                    self.loop_stack = saved_loop_stack[: try_ctx.loop_depth]\n", "")
m("c07-builtin-errors-uncatchable", "C07", VM, "                self._handle_python_exception(e.name, e.message)\n", "                raise\n")
m("c07-limit-errors-catchable", "C01", VM, "isinstance(e, (TimeLimitError, MemoryLimitError))", "isinstance(e, MemoryLimitError)", 2)
m("c10-poll-only-when-stack-empty", "C10", RVM, "            if self._steps_to_poll <= 0:\n                self._steps_to_poll = self.poll_interval\n                if self.poll_callback and self.poll_callback():\n                    raise RegexTimeoutError(\"Regex execution timed out\")\n\n            # Hard step limit", "            if self._steps_to_poll <= 0 and not stack:\n                self._steps_to_poll = self.poll_interval\n                if self.poll_callback and self.poll_callback():\n                    raise RegexTimeoutError(\"Regex execution timed out\")\n\n            # Hard step limit")
m("c10-poll-countdown-per-run", "C10", RVM, "            self._steps_to_poll -= 1\n            if self._steps_to_poll <= 0:", "            if step_count % self.poll_interval == 0:", 3)
m("c15-object-string-embeds-id", "C15", "src/microjs/values.py", "    return \"[object Object]\"", "    return \"[object Object %d]\" % (id(value) % 7)")
m("c12-regexp-keeps-creator-deadline", "C12", VM, "        regex_internal = regexp._internal\n        if self.time_limit is not None:", "        regex_internal = regexp._internal\n        if False and self.time_limit is not None:")

PRE = {
    "c12-globals-class-attribute": (CTX, "class Context:\n    \"\"\"JavaScript execution context with configurable limits.\"\"\"\n", "class Context:\n    \"\"\"JavaScript execution context with configurable limits.\"\"\"\n\n    _shared_globals: Dict[str, JSValue] = {}\n"),
    "c12-math-module-level": (CTX, "\nclass Context:", "\n_SHARED = {}\n\n\nclass Context:"),
    "c12-error-proto-shared": (CTX, "\nclass Context:", "\n_SHARED = {}\n\n\nclass Context:"),
}


def sh(cmd, cwd=None, env=None, timeout=3600):
    p = subprocess.run(cmd, shell=True, cwd=cwd, env=env, capture_output=True, text=True, timeout=timeout)
    return p.returncode, p.stdout + p.stderr


def main():
    ap = argparse.ArgumentParser()
    ap.add_argument("--only", default="")
    ap.add_argument("--n", type=int)
    ap.add_argument("--suite", action="store_true")
    a = ap.parse_args()
    wt = "/var/tmp/simjs-selfmut-%d" % os.getpid()
    sh("git -C /repo worktree add -q %s HEAD" % wt)
    summary = []
    try:
        for name, pid, path, old, new, count in M:
            if a.only and not any(x in name for x in a.only.split(",")):
                continue
            sh("git checkout -- .", cwd=wt)
            f = os.path.join(wt, path)
            s = open(f).read()
            if name in PRE:
                pf, po, pn = PRE[name]
                s2 = open(os.path.join(wt, pf)).read()
                assert po in s2, (name, "pre anchor")
                s2 = s2.replace(po, pn, 1)
                open(os.path.join(wt, pf), "w").write(s2)
                s = open(f).read()
            if callable(old):
                s2 = old(s)
                if s2 == s:
                    summary.append((name, pid, "ANCHOR-LOST"))
                    print("%-42s %s ANCHOR-LOST" % (name, pid))
                    continue
                open(f, "w").write(s2)
            else:
                if old not in s:
                    summary.append((name, pid, "ANCHOR-LOST"))
                    print("%-42s %s ANCHOR-LOST" % (name, pid))
                    continue
                open(f, "w").write(s.replace(old, new, count))
            env = dict(os.environ, SIMJS_REPO_SRC=wt + "/src", SIMJS_MAX_NEW="2", SIMJS_NO_EVIDENCE="1")
            env.pop("SIMJS_CHILD", None)
            rc, out = sh("%s -c 'import sys; sys.path.insert(0, \"%s/src\"); import microjs'" % (PY, wt))
            if rc != 0:
                summary.append((name, pid, "DOES-NOT-IMPORT"))
                print("%-42s %s DOES-NOT-IMPORT %s" % (name, pid, out[-200:]))
                continue
            suite = ""
            if a.suite:
                rc, o = sh("%s -m pytest -q -p no:cacheprovider -n 8 2>&1 | tail -1" % PY, cwd=wt, env=dict(os.environ, PYTHONPATH=wt + "/src"), timeout=1800)
                suite = o.strip()
            t0 = time.time()
            rc, out = sh("%s simjs/run.py check %s --tier quick%s" % (PY, pid, (" --n %d" % a.n) if a.n else ""), cwd=VERIF, env=env, timeout=3000)
            viol = [l for l in out.splitlines() if l.startswith("VIOLATION")]
            det = [l.strip() for l in out.splitlines() if l.startswith("  ") and "." in l][:1]
            status = "CAUGHT" if (rc == 1 and viol) else ("MISSED" if rc == 0 else "HARNESS(rc=%d)" % rc)
            summary.append((name, pid, status))
            print("%-42s %s %-8s %4.0fs %s %s" % (name, pid, status, time.time() - t0, suite, (det[0][:110] if det else "")))
            if status.startswith("HARNESS"):
                print(out[-800:])
            sys.stdout.flush()
    finally:
        sh("git -C /repo worktree remove --force %s" % wt)
        shutil.rmtree(wt, ignore_errors=True)
    print("caught %d / %d" % (sum(1 for s in summary if s[2] == "CAUGHT"), len(summary)))


if __name__ == "__main__":
    main()
