"""simjs.pool -- a small fork-based worker pool that survives hung or dead workers.

The parent never installs the simulated world; every worker does, after fork.
Each task is sent to one worker over its own pipe; a worker that exceeds the
real-time watchdog is killed and replaced, and its task is reported as
{"_harness": "timeout"} -- never as a pass.
"""
import os
import sys
import time
import signal
import traceback
import multiprocessing as mp
from multiprocessing.connection import wait as mp_wait

_ctx = mp.get_context("fork")


def _worker_main(conn, init_fn, work_fn):
    try:
        import faulthandler
        faulthandler.enable()
        if init_fn is not None:
            init_fn()
        while True:
            msg = conn.recv()
            if msg is None:
                break
            idx, task = msg
            try:
                res = work_fn(task)
            except BaseException as e:  # harness bug inside the worker
                res = {"_harness": "exception",
                       "detail": "".join(traceback.format_exception(type(e), e, e.__traceback__))[-3000:]}
            conn.send((idx, res))
    except (EOFError, KeyboardInterrupt):
        pass
    finally:
        try:
            conn.close()
        except Exception:
            pass
        os._exit(0)


class _Worker:
    def __init__(self, init_fn, work_fn):
        self.parent_conn, child_conn = _ctx.Pipe()
        self.proc = _ctx.Process(target=_worker_main, args=(child_conn, init_fn, work_fn), daemon=True)
        self.proc.start()
        child_conn.close()
        self.busy = None  # (idx, started)

    def kill(self):
        try:
            os.kill(self.proc.pid, signal.SIGKILL)
        except OSError:
            pass
        self.proc.join(5)
        try:
            self.parent_conn.close()
        except Exception:
            pass


def run_pool(tasks, work_fn, init_fn=None, nproc=None, timeout_s=120.0, progress=None,
             deadline=None):
    """Run work_fn(task) for every task; returns results in task order.

    tasks: list. deadline: real-time monotonic instant after which no new task is
    started (remaining results are None)."""
    tasks = list(tasks)
    n = len(tasks)
    results = [None] * n
    if n == 0:
        return results
    nproc = max(1, min(nproc or os.cpu_count() or 1, n))
    workers = [_Worker(init_fn, work_fn) for _ in range(nproc)]
    next_i = 0
    done = 0
    skipped = 0

    def feed(w):
        nonlocal next_i, skipped
        if deadline is not None and time.monotonic() > deadline:
            skipped = n - next_i
            next_i = n
        if next_i < n:
            w.busy = (next_i, time.monotonic())
            w.parent_conn.send((next_i, tasks[next_i]))
            next_i += 1
        else:
            w.busy = None

    try:
        for w in workers:
            feed(w)
        while any(w.busy is not None for w in workers):
            conns = [w.parent_conn for w in workers if w.busy is not None]
            ready = mp_wait(conns, timeout=1.0)
            for w in list(workers):
                if w.busy is None:
                    continue
                if w.parent_conn in ready:
                    try:
                        idx, res = w.parent_conn.recv()
                        results[idx] = res
                        done += 1
                        feed(w)
                    except (EOFError, OSError):
                        idx = w.busy[0]
                        results[idx] = {"_harness": "crash", "detail": "worker died (exit %s)" % w.proc.exitcode}
                        done += 1
                        w.kill()
                        nw = _Worker(init_fn, work_fn)
                        workers[workers.index(w)] = nw
                        feed(nw)
                elif time.monotonic() - w.busy[1] > timeout_s:
                    idx = w.busy[0]
                    results[idx] = {"_harness": "timeout", "detail": "no result after %.0fs real time" % timeout_s}
                    done += 1
                    w.kill()
                    nw = _Worker(init_fn, work_fn)
                    workers[workers.index(w)] = nw
                    feed(nw)
            if progress is not None:
                progress(done, n)
    finally:
        for w in workers:
            try:
                if w.proc.is_alive():
                    w.parent_conn.send(None)
            except Exception:
                pass
        for w in workers:
            w.proc.join(2)
            if w.proc.is_alive():
                w.kill()
    return results
