"""simjs.world -- the simulated world micro-javascript runs in.

One process-global world (the engine reads one process-global `time` module):

* virtual clock: time.monotonic/time/perf_counter(+_ns)/sleep are replaced;
  now = epoch + work * tick + mono_off.
* simulated work: sys.monitoring PY_START / PY_RESUME / backward JUMP events
  whose code object lives under <repo>/src/microjs.  One event = one work unit.
* fault schedule: a heap of (at_work, seq, fn) fired from the work counter.
* work cap: WorkCap (BaseException) raised from the counter.
* event log: append-only list; its SHA-256 is the run digest.  Logging never
  draws random numbers and never reads a real clock.

Nothing here imports microjs until install() is called, and install() patches
the time module first so that any `from time import monotonic` in the engine
binds to the virtual clock as well.
"""
import sys
import os
import heapq
import re
import hashlib
import json
import time as _time
import random as _random

REPO_SRC = os.path.realpath(os.environ.get("SIMJS_REPO_SRC", "/repo/src"))
PKG_PREFIX = os.path.join(REPO_SRC, "microjs") + os.sep

real_monotonic = _time.monotonic
real_time = _time.time
real_perf_counter = _time.perf_counter
real_sleep = _time.sleep

INF = float("inf")
_ADDR = re.compile(r"0x[0-9a-fA-F]{6,}")


class WorkCap(BaseException):
    """Raised by the simulator when a run exceeds its work cap (a hang)."""


class HarnessError(Exception):
    """The harness itself is broken (seam lost, import failure...)."""


class _State:
    __slots__ = (
        "work", "next_at", "cap", "tick", "epoch", "wall_epoch", "mono_off",
        "wall_off", "clock_reads", "events", "seq", "log", "installed",
        "in_host", "sched", "cap_hits", "counting",
    )

    def __init__(self):
        self.installed = False
        self.reset()

    def reset(self, tick=1e-5, epoch=1000.0, wall_epoch=1.7e9):
        self.work = 0
        self.cap = INF
        self.next_at = INF
        self.tick = tick
        self.epoch = epoch
        self.wall_epoch = wall_epoch
        self.mono_off = 0.0
        self.wall_off = 0.0
        self.clock_reads = 0
        self.events = []      # heap of (at_work, seq, fn)
        self.seq = 0
        self.log = []
        self.in_host = 0
        self.sched = None     # threaded scheduler hook (callable(work)) or None
        self.cap_hits = 0
        self.counting = True


S = _State()


# ---------------------------------------------------------------- clock
def v_monotonic():
    S.clock_reads += 1
    return S.epoch + S.work * S.tick + S.mono_off


def v_time():
    S.clock_reads += 1
    return S.wall_epoch + S.work * S.tick + S.mono_off + S.wall_off


def v_monotonic_ns():
    return int(v_monotonic() * 1e9)


def v_time_ns():
    return int(v_time() * 1e9)


def v_process_time():
    """CPU time of the process: simulated work only -- stalls, sleeps and clock jumps (mono_off) are
    time during which the process did not run."""
    S.clock_reads += 1
    return S.work * S.tick


def v_process_time_ns():
    return int(v_process_time() * 1e9)


def v_sleep(d):
    S.mono_off += max(0.0, float(d))


def now():
    """Virtual monotonic now, without counting as a clock read."""
    return S.epoch + S.work * S.tick + S.mono_off


# ---------------------------------------------------------------- work
_mj = {}  # id(code) -> code (kept alive)
_DISABLE = None


def _slow(w):
    # fire due scheduled events, then the cap
    ev = S.events
    while ev and ev[0][0] <= w:
        _, _, fn = heapq.heappop(ev)
        _recompute_next()
        fn()
    if w >= S.cap:
        S.cap_hits += 1
        # keep raising on every further unit so that nothing can swallow it
        S.next_at = w + 1
        raise WorkCap(w)
    _recompute_next()


def _recompute_next():
    n = S.cap
    if S.events and S.events[0][0] < n:
        n = S.events[0][0]
    S.next_at = n


def _on_start(code, off):
    if id(code) in _mj:
        if S.counting:
            w = S.work + 1
            S.work = w
            if w >= S.next_at:
                _slow(w)
        return None
    if code.co_filename.startswith(PKG_PREFIX):
        _mj[id(code)] = code
        return _on_start(code, off)
    return _DISABLE


def _on_jump(code, off, dest):
    if id(code) in _mj:
        if dest < off and S.counting:
            w = S.work + 1
            S.work = w
            if w >= S.next_at:
                _slow(w)
        return None
    if code.co_filename.startswith(PKG_PREFIX):
        _mj[id(code)] = code
        return _on_jump(code, off, dest)
    return _DISABLE


TOOL_ID = 3


def install():
    """Patch the clock, start the work counter, import the engine."""
    global _DISABLE
    if S.installed:
        return
    if sys.version_info[:2] < (3, 12) or not hasattr(sys, "monitoring"):
        raise HarnessError("needs Python >= 3.12 with sys.monitoring")
    # clock seam (before the engine is imported)
    _time.monotonic = v_monotonic
    _time.time = v_time
    _time.perf_counter = v_monotonic
    _time.monotonic_ns = v_monotonic_ns
    _time.time_ns = v_time_ns
    _time.perf_counter_ns = v_monotonic_ns
    _time.sleep = v_sleep
    # CPU clocks are part of the seam too: an engine that measured its limit in CPU time would
    # otherwise read the real one
    _time.process_time = v_process_time
    _time.process_time_ns = v_process_time_ns
    _time.thread_time = v_process_time
    _time.thread_time_ns = v_process_time_ns
    if "microjs" in sys.modules:
        raise HarnessError("microjs imported before the clock seam was installed")
    sys.path.insert(0, REPO_SRC)
    sys.dont_write_bytecode = True
    mon = sys.monitoring
    _DISABLE = mon.DISABLE
    mon.use_tool_id(TOOL_ID, "simjs")
    E = mon.events
    mon.register_callback(TOOL_ID, E.PY_START, _on_start)
    mon.register_callback(TOOL_ID, E.PY_RESUME, _on_start)
    mon.register_callback(TOOL_ID, E.JUMP, _on_jump)
    mon.set_events(TOOL_ID, E.PY_START | E.PY_RESUME | E.JUMP)
    S.counting = False
    import microjs  # noqa
    S.counting = True
    f = os.path.realpath(microjs.__file__)
    if not f.startswith(PKG_PREFIX):
        raise HarnessError("microjs imported from %s, not from %s" % (f, PKG_PREFIX))
    S.installed = True


def reset(tick=1e-5, epoch=1000.0, wall_epoch=1.7e9, seed=0):
    S.reset(tick, epoch, wall_epoch)
    _random.seed(seed)


def set_cap(abs_work):
    S.cap = abs_work
    _recompute_next()


def schedule(at_work, fn):
    S.seq += 1
    heapq.heappush(S.events, (at_work, S.seq, fn))
    _recompute_next()


def log(*entry):
    S.log.append((len(S.log), S.work) + entry)


def bdigest():
    """Behavioural digest: the event log without sequence numbers and work stamps (what happened,
    in which order -- not after how many work units; a process-level cache inside the engine may
    legitimately change the latter)."""
    return digest([list(e[2:]) for e in S.log])


def digest(obj=None):
    data = S.log if obj is None else obj
    return hashlib.sha256(
        json.dumps(data, sort_keys=True, default=repr).encode()
    ).hexdigest()


# ---------------------------------------------------------------- helpers
def classify_exception(e):
    """-> (kind, class name, message). kind in limit_time, limit_mem, js_syntax,
    js_error, cap, host_exc."""
    import microjs
    from microjs import errors as E
    name = type(e).__name__
    if isinstance(e, WorkCap):
        return ("cap", "WorkCap", "")
    msg = _ADDR.sub("0x?", str(e)[:300])    # host object addresses inside messages are not behaviour
    if type(e) is E.TimeLimitError:
        return ("limit_time", name, msg)
    if type(e) is E.MemoryLimitError:
        return ("limit_mem", name, msg)
    if isinstance(e, E.JSSyntaxError):
        return ("js_syntax", name, msg)
    if isinstance(e, E.JSError):
        return ("js_error", name, msg)
    return ("host_exc", name, msg)


def py_stack_sites(tb):
    """Names of engine functions on the Python stack of a traceback (innermost last)."""
    out = []
    while tb is not None:
        co = tb.tb_frame.f_code
        if co.co_filename.startswith(PKG_PREFIX):
            out.append(co.co_name)
        tb = tb.tb_next
    return out


def canon(v, depth=0):
    """Canonical JSON-able form of a value returned by Context.eval/get."""
    if depth > 6:
        return "<deep>"
    if v is None or isinstance(v, (bool, str)):
        return v
    if isinstance(v, int):
        return v
    if isinstance(v, float):
        if v != v:
            return "NaN"
        if v in (INF, -INF):
            return "Infinity" if v > 0 else "-Infinity"
        if v == int(v) and abs(v) < 1e15:
            return int(v)
        return v
    if isinstance(v, (list, tuple)):
        return [canon(x, depth + 1) for x in v]
    if isinstance(v, dict):
        return {str(k): canon(x, depth + 1) for k, x in v.items()}
    return "<" + type(v).__name__ + ">"
