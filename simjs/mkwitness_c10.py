"""One-off: witness replay files for the C10 findings repaired in /repo."""
import sys, os, json
sys.path.insert(0, os.path.dirname(os.path.abspath(__file__)))
import c10
from common import sha1

def mk(name, clause, family, n, step=200, stack=10000, api="test"):
    cell = {"family": family, "api": api, "build": "literal", "n": n, "wrap": "none"}
    case = {"property": "C10", "seed": 0, "index": -1, "cell": cell,
            "knobs": {"step_limit": step, "stack_limit": stack, "poll_interval": 100},
            "world": {"tick": 1e-5, "epoch": 1000.0}, "T_work": None, "faults": []}
    case["src"] = c10.render(cell)
    doc = {"property": "C10", "clause": clause, "signature": {"exact": sha1(c10.normalise(case)), "class": c10.features(case)}, "case": case}
    path = os.path.join(os.path.dirname(os.path.dirname(os.path.abspath(__file__))), "findings", name + ".json")
    json.dump(doc, open(path, "w"), indent=1, sort_keys=True)
    print(path)

mk("C10-lookahead-no-step-budget", "C10.bound", "la_nested_plus", 22)
mk("C10-lookbehind-no-step-budget", "C10.bound", "lb_nested_plus", 22)
mk("C10-neg-lookahead-no-step-budget", "C10.bound", "neg_la", 22)
mk("C10-stack-overflow-escapes", "C10.class", "wide_alt", 26, step=100000, stack=8)
mk("C10-stack-overflow-escapes-default-budgets", "C10.class", "la_star_star", 18, step=100000, stack=10000)

# witness for the shared poll countdown fix: a timed quadratic lookbehind scan
cell = {"family": "lb_scan_quadratic", "api": "test", "build": "literal", "n": 1500, "wrap": "none", "flags": ""}
case = {"property": "C10", "seed": 0, "index": -1, "cell": cell, "knobs": {"step_limit": 100000, "stack_limit": 10000, "poll_interval": 100},
        "world": {"tick": 1e-5, "epoch": 1000.0}, "T_work": 20000, "faults": []}
case["src"] = c10.render(cell)
doc = {"property": "C10", "clause": "C10.overrun", "signature": {"exact": sha1(c10.normalise(case)), "class": c10.features(case)}, "case": case}
json.dump(doc, open(os.path.join(os.path.dirname(os.path.dirname(os.path.abspath(__file__))), "findings", "C10-short-matcher-runs-never-polled.json"), "w"), indent=1, sort_keys=True)
