"""One-off: write witness replay files for the C01 findings that were repaired in /repo."""
import sys, os, json
sys.path.insert(0, os.path.dirname(os.path.abspath(__file__)))
import c01
from common import sha1

def mk(name, clause, keepalive, sites=("top",), wrap="none", prelude="none", params=None, T_work=3000):
    cell = {"keepalive": keepalive, "sites": list(sites), "wrap": wrap, "wrap_at": "outer", "prelude": prelude,
            "params": params or {}}
    case = {"property": "C01", "seed": 0, "index": -1, "control": False, "cell": cell,
            "world": {"tick": 1e-5, "epoch": 1000.0, "wall_epoch": 1.7e9}, "T_work": T_work, "M": None, "faults": []}
    case["src"] = c01.render(cell)
    doc = {"property": "C01", "clause": clause, "signature": {"exact": sha1(c01.normalise(case)), "class": c01.features(case)},
           "case": case}
    path = os.path.join(os.path.dirname(os.path.dirname(os.path.abspath(__file__))), "findings", name + ".json")
    json.dump(doc, open(path, "w"), indent=1, sort_keys=True)
    print(path)

mk("C01-eval-fresh-deadline-class", "C01.class", "eval_loop")
mk("C01-eval3-relabel", "C01.class", "eval3_loop")
mk("C01-reenter-regexp-unpolled", "C01.hang", "regex", prelude="reenter",
   params={"rx_family": "nested_plus", "rx_api": "test", "rx_build": "ctor_new", "rx_n": 26, "rx_mode": "loop"})
mk("C01-apply-loop-recursionerror", "C01.class", "loop_apply", T_work=15000)
mk("C01-call-loop-recursionerror", "C01.class", "loop_call", T_work=15000)
mk("C01-eval-chain-restart-overrun", "C01.overrun", "eval_chain_busy", T_work=450_000,
   params={"chain_depth": 4, "chain_iters": int(0.8 * 450_000 / 45), "bounded": True})
mk("C01-regexp-from-earlier-eval-spurious-timeout", "C01.early", "regex",
   params={"rx_family": "nested_plus", "rx_api": "test", "rx_build": "setup_ctor", "rx_n": 26, "rx_mode": "loop"})
mk("C01-eval-tree-never-polled", "C01.hang", "eval_tree", T_work=20000)
mk("C01-instanceof-on-cyclic-prototype-chain-hangs", "C01.hang", "proto_cycle", T_work=5000)
mk("C01-native-push-callback-extends-own-iteration", "C01.hang", "native_cb_grow", T_work=5000,
   params={"ng_method": "forEach", "ng_fn": "push"})
mk("C01-pow-on-unbounded-integers", "C01.hang", "pow_tower", T_work=5000, params={"pt_base": "3", "pt_op": "** 3"})
mk("C01-kept-array-method-uses-creators-clock", "C01.early", "kept_method", T_work=30000, params={"km_use": "each"})
mk("C01-kept-regexp-method-uses-creators-clock", "C01.early", "kept_method", T_work=30000, params={"km_use": "rx_test"})
