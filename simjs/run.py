#!/venv/bin/python
"""simjs driver.

  run.py check <ID> [--tier quick|thorough] [--n N] [--nproc K]
  run.py replay <file>
  run.py selftest determinism [--n N]
  run.py case <ID> <seed> <index> [--tier T]        (print one generated case and its result)

Exit codes: 0 = property held on everything explored (known findings are printed as
KNOWN-FINDING lines), 1 = VIOLATION (replay file written), 2 = harness error.
"""
import sys
import os
import json
import time
import argparse
import importlib
import subprocess
import fnmatch

HERE = os.path.dirname(os.path.abspath(__file__))
VERIF = os.path.dirname(HERE)
sys.path.insert(0, HERE)

ENV_FIXED = {"PYTHONHASHSEED": "0", "PYTHONDONTWRITEBYTECODE": "1"}


def _reexec_if_needed():
    if os.environ.get("SIMJS_CHILD") == "1":
        return
    env = dict(os.environ)
    env.update(ENV_FIXED)
    env["SIMJS_CHILD"] = "1"
    # the engine is always imported from the working tree, never from site-packages
    env["PYTHONPATH"] = os.environ.get("SIMJS_REPO_SRC", "/repo/src")
    os.execve(sys.executable, [sys.executable] + sys.argv, env)


MODULES = {"C01": "c01", "C02": "c02", "C07": "c07", "C10": "c10", "C12": "c12", "C15": "c15"}


def load(pid):
    return importlib.import_module(MODULES[pid])


# --------------------------------------------------------------------------- findings
def load_findings():
    p = os.path.join(VERIF, "known_findings.json")
    if not os.path.exists(p):
        return []
    return json.load(open(p)).get("findings", [])


def _feat_ok(feat, patterns):
    return any(fnmatch.fnmatchcase(feat, p) for p in patterns)


def match_finding(findings, pid, clause, feats):
    """A minimised violation matches an *open* finding when the clause is listed, every
    required feature is present and every feature present is required or allowed."""
    for f in findings:
        if f.get("property") != pid or f.get("status") != "open":
            continue
        if clause not in f.get("clauses", []):
            continue
        for alt in f.get("match", []):
            req = alt.get("requires", [])
            allow = alt.get("allows", [])
            if all(any(fnmatch.fnmatchcase(x, r) for x in feats) for r in req) and \
                    all(_feat_ok(x, req + allow) for x in feats):
                return f
    return None


# --------------------------------------------------------------------------- worker functions
def _init_worker():
    import world
    world.install()


_HIST = []   # indices of the cases this worker process has executed so far, in order


def _mk_explore(pid, seed, tier):
    mod = load(pid)

    def work(i):
        case = mod.gen_case(seed, i, tier)
        import common as _common
        rt0 = _common.REALTIME_HITS[0]
        res = mod.execute(case)
        prev = list(_HIST)
        _HIST.append(i)
        out = {
            "i": i,
            "clauses": mod.violation_clauses(res),
            "violations": res.get("violations", []),
            "nontrivial": mod.nontrivial_key(case, res),
            "stats": mod.stats(case, res) if hasattr(mod, "stats") else {},
            "digest": res.get("digest"),
            "bdigest": res.get("bdigest", res.get("digest")),
            "work": res.get("work", 0),
            "sim_s": res.get("elapsed", 0.0),
        }
        if out["clauses"]:
            out["hist"] = prev
        if _common.REALTIME_HITS[0] > rt0:
            out["realtime"] = True     # an eval was ended by the real-time guard, not by simulated work
        return out
    return work


def _mk_history_run(pid, seed, tier):
    """Run a sequence of cases in one fresh process; report the clauses of the last one."""
    mod = load(pid)

    def work(task):
        hist, i = task
        for h in hist:
            try:
                mod.execute(mod.gen_case(seed, h, tier))
            except Exception:
                pass
        res = mod.execute(mod.gen_case(seed, i, tier))
        return {"clauses": mod.violation_clauses(res), "violations": res.get("violations", []), "digest": res.get("digest")}
    return work


def reproduce_with_history(pool, pid, seed, tier, hist, i, clause, nproc):
    """A violation that does not reproduce alone may need what the same process evaluated
    before (state leaking between contexts).  Re-run the worker's history in a fresh process
    and shrink it (greedy halving, then single removals) while the clause still fails."""
    def fails(h):
        r = pool.run_pool([(h, i)], _mk_history_run(pid, seed, tier), _init_worker, nproc=1, timeout_s=1200)[0]
        return bool(r) and "_harness" not in r and clause in r["clauses"], r
    ok, r = fails(hist)
    if not ok:
        return None
    budget = 24
    changed = True
    while changed and budget > 0 and len(hist) > 0:
        changed = False
        half = len(hist) // 2
        for cand in ((hist[half:], hist[:half]) if half else ()):
            budget -= 1
            ok2, r2 = fails(cand)
            if ok2:
                hist, r, changed = cand, r2, True
                break
        if not changed and len(hist) <= 6:
            for k in range(len(hist)):
                cand = hist[:k] + hist[k + 1:]
                budget -= 1
                ok2, r2 = fails(cand)
                if ok2:
                    hist, r, changed = cand, r2, True
                    break
                if budget <= 0:
                    break
    return hist, r


def _mk_minimise(pid, seed, tier):
    mod = load(pid)

    def work(task):
        i, clause = task
        case = mod.gen_case(seed, i, tier)
        return minimise_case(mod, case, clause)
    return work


def minimise_case(mod, case, clause, budget=None):
    from common import minimise, sha1

    def fails(c):
        try:
            r = mod.execute(c)
        except Exception:
            return False
        return clause in mod.violation_clauses(r)
    if not fails(case):
        return {"reproduced": False, "case": case, "clause": clause}
    small = minimise(case, fails, mod.shrink_candidates, budget or getattr(mod, "MIN_BUDGET", 120))
    res = mod.execute(small)
    feats = mod.features(small, res)
    norm = mod.normalise(small) if hasattr(mod, "normalise") else {k: small[k] for k in small if k not in ("seed", "index")}
    return {"reproduced": True, "case": small, "clause": clause, "features": feats,
            "exact": sha1(norm), "result": _slim(res)}


def _slim(res):
    r = dict(res)
    for k in list(r):
        if k in ("log",):
            r.pop(k)
    return r


# --------------------------------------------------------------------------- replay
def write_replay(pid, mini, seed):
    os.makedirs(os.path.join(VERIF, "replays"), exist_ok=True)
    name = "%s-%s-%s-%s.json" % (pid, mini["clause"].split(".")[-1], mini["exact"][:10], seed)
    path = os.path.join(VERIF, "replays", name)
    doc = {
        "property": pid, "clause": mini["clause"],
        "signature": {"exact": mini["exact"], "class": mini["features"]},
        "case": mini["case"],
        "expect": {"digest": mini["result"].get("digest"), "violations": mini["result"].get("violations")},
    }
    if mini.get("history"):
        # cases the same process has to evaluate first (state leaking between contexts)
        doc["history"] = mini["history"]
    json.dump(doc, open(path, "w"), indent=1, sort_keys=True, default=repr)
    return path


def cmd_replay(path):
    doc = json.load(open(path))
    pid = doc["property"]
    mod = load(pid)
    if hasattr(mod, "replay"):
        rc = mod.replay(doc)
        if rc == 1:
            print("VIOLATION property=%s replay=%s" % (pid, path))
        return rc
    import world
    world.install()
    for h in doc.get("history", []):
        try:
            mod.execute(h)
        except Exception:
            pass
    res = mod.execute(doc["case"])
    clauses = mod.violation_clauses(res)
    same_digest = (res.get("digest") == doc.get("expect", {}).get("digest"))
    print(json.dumps({"clauses": clauses, "violations": res.get("violations"), "digest": res.get("digest"),
                      "digest_matches_recorded": same_digest}, indent=1, default=repr))
    if doc["clause"] in clauses:
        print("VIOLATION property=%s replay=%s" % (pid, path))
        return 1
    print("replay: clause %s no longer fails" % doc["clause"])
    return 0


# --------------------------------------------------------------------------- check
def cmd_check(pid, tier, n_override=None, nproc=None, budget_s=None):
    import pool
    t0 = time.monotonic()
    seed = int(os.environ.get("VERIF_SEED", "0") or 0)
    mod = load(pid)
    if hasattr(mod, "custom_check"):
        return mod.custom_check(tier, seed, nproc)
    findings = load_findings()
    exit_code = 0
    lines = []
    known_seen = {}
    harness_errors = []

    # 1. witnesses of recorded findings (open: must still print KNOWN-FINDING; fixed: must pass)
    wit = [f for f in findings if f.get("property") == pid and f.get("witness")]
    if wit:
        def wwork(f):
            doc = json.load(open(os.path.join(VERIF, f["witness"])))
            res = mod.execute(doc["case"])
            return {"clauses": mod.violation_clauses(res), "clause": doc["clause"], "violations": res.get("violations")}
        wres = pool.run_pool(wit, wwork, _init_worker, nproc=nproc, timeout_s=180)
        for f, r in zip(wit, wres):
            if r is None or "_harness" in r:
                harness_errors.append("witness %s: %s" % (f["id"], r))
                continue
            failing = r["clause"] in r["clauses"]
            if f["status"] == "fixed":
                # a repaired defect must not come back under any clause
                failing = bool(r["clauses"])
            if f["status"] == "open" and failing:
                known_seen[f["id"]] = known_seen.get(f["id"], 0) + 1
            elif f["status"] == "fixed" and failing:
                print("VIOLATION property=%s replay=%s" % (pid, os.path.join(VERIF, f["witness"])))
                print("  regression of fixed finding %s: %s" % (f["id"], f["what"]))
                exit_code = 1

    # 2. exploration
    n = n_override or mod.n_cases(tier)
    deadline = (t0 + budget_s) if budget_s else None
    results = pool.run_pool(list(range(n)), _mk_explore(pid, seed, tier), _init_worker, nproc=nproc,
                            timeout_s=getattr(mod, "CASE_TIMEOUT_S", 180), deadline=deadline)
    ran = [r for r in results if r is not None]
    hung = [(i, r) for i, r in enumerate(results) if r is not None and "_harness" in r]
    ok = [r for r in ran if "_harness" not in r]

    # 3. real-time watchdog kills: a violation of the never-hangs clause only if it reproduces
    for i, r in hung:
        r2 = pool.run_pool([i], _mk_explore(pid, seed, tier), _init_worker, nproc=1,
                           timeout_s=getattr(mod, "CASE_TIMEOUT_S", 180))[0]
        if r2 is not None and "_harness" in r2 and r2["_harness"] == "timeout" and r["_harness"] == "timeout":
            case = mod.gen_case(seed, i, tier)
            mini = {"clause": pid + ".hang", "exact": "watchdog-%d" % i, "features": mod.features(case, {}),
                    "case": case, "result": {"violations": [{"clause": pid + ".hang", "detail": "real-time watchdog, reproduced"}]}}
            path = write_replay(pid, mini, seed)
            print("VIOLATION property=%s replay=%s" % (pid, path))
            exit_code = 1
        elif r2 is not None and "_harness" not in r2:
            ok.append(r2)
            harness_errors.append("case %d: %s on first run, fine on re-run" % (i, r["_harness"]))
        else:
            harness_errors.append("case %d: %s / %s" % (i, r, r2))

    # 4. minimise + classify violations
    viol = [(r["i"], c) for r in ok for c in r["clauses"]]
    n_violating_cases = len({i for i, _ in viol})
    new_violations = {}
    not_minimised = 0
    batch = max(8, (nproc or os.cpu_count() or 8))
    pos = 0
    MAX_NEW = int(os.environ.get("SIMJS_MAX_NEW", "10"))
    while pos < len(viol):
        if len(new_violations) >= MAX_NEW:
            # the check already fails; the remaining violating runs are counted, not minimised
            not_minimised = len(viol) - pos
            break
        chunk = viol[pos:pos + batch]
        pos += len(chunk)
        minis = pool.run_pool(chunk, _mk_minimise(pid, seed, tier), _init_worker, nproc=nproc, timeout_s=900)
        for (i, clause), m in zip(chunk, minis):
            if m is None or "_harness" in (m or {}):
                harness_errors.append("minimise %d %s: %s" % (i, clause, m))
                continue
            if not m["reproduced"]:
                hist = next((r.get("hist") for r in ok if r["i"] == i), None) or []
                rep = reproduce_with_history(pool, pid, seed, tier, hist, i, clause, nproc) if hist else None
                if rep is None:
                    if next((r.get("realtime") for r in ok if r["i"] == i), False):
                        # ended by the real-time guard once, fine on the second run: a loaded host,
                        # not a property of /repo (a real hang reproduces)
                        print("note: case %d was cut off by the real-time guard and ran normally when repeated (slow host)" % i)
                        continue
                    harness_errors.append("case %d clause %s did not reproduce in a second run" % (i, clause))
                    continue
                hmin, rr = rep
                case = mod.gen_case(seed, i, tier)
                from common import sha1 as _sha1
                feats = sorted(set(mod.features(case, {}) + ["needs-history"]))
                m = {"reproduced": True, "case": case, "clause": clause, "features": feats,
                     "history": [mod.gen_case(seed, h, tier) for h in hmin],
                     "exact": _sha1([mod.normalise(case) if hasattr(mod, "normalise") else i, clause, "history"]),
                     "result": {"violations": rr["violations"], "digest": rr.get("digest")}}
            f = match_finding(findings, pid, clause, m["features"])
            if f is not None:
                known_seen[f["id"]] = known_seen.get(f["id"], 0) + 1
            else:
                new_violations.setdefault((clause, m["exact"]), (i, m))
    if not_minimised:
        print("note: %d further violating (run, clause) pairs were not minimised (the check already fails)" % not_minimised)
    for (clause, exact), (i, m) in sorted(new_violations.items()):
        path = write_replay(pid, m, seed)
        print("VIOLATION property=%s replay=%s" % (pid, path))
        for v in m["result"].get("violations", [])[:3]:
            print("  %s: %s" % (v["clause"], v["detail"]))
        print("  minimal features: %s" % ", ".join(m["features"]))
        if m.get("history"):
            print("  reproduces only after %d earlier case(s) in the same process (kept in the replay file)" % len(m["history"]))
        exit_code = 1
    for f in findings:
        if f["id"] in known_seen:
            print("KNOWN-FINDING: property=%s %s [%s, seen %d times]" % (pid, f["what"], f["id"], known_seen[f["id"]]))

    # 5. determinism spot check: a sample of cases again, in a fresh interpreter with another hash seed
    sample = [r["i"] for r in ok if r.get("digest")][:: max(1, len(ok) // 24)][:24]
    if sample and getattr(mod, "HASHSEED_INDEPENDENT", True):
        try:
            out = subprocess.run([sys.executable, os.path.abspath(__file__), "digests", pid, str(seed), tier,
                                  ",".join(map(str, sample))],
                                 env=dict(os.environ, PYTHONHASHSEED="1"), capture_output=True, text=True, timeout=600)
            again = json.loads(out.stdout.strip().splitlines()[-1])
            first = {r["i"]: (r["digest"], r.get("bdigest")) for r in ok}
            diff = [i for i in sample if first.get(i, (None, None))[1] != again.get(str(i), [None, None])[1]]
            wdiff = [i for i in sample if first.get(i, (None, None))[0] != again.get(str(i), [None, None])[0]]
            if diff and not any(m.get("history") for _, m in new_violations.values()):
                harness_errors.append("nondeterministic behaviour (event logs differ between processes) for cases %s" % diff[:10])
            elif wdiff:
                print("note: work counts of %d sampled cases differ between a pool worker and a fresh interpreter "
                      "(same events, different cost: the engine keeps process-level state such as a cache)" % len(wdiff))
        except Exception as e:  # noqa
            harness_errors.append("determinism spot check failed to run: %r" % (e,))

    # 6. evidence
    wall = time.monotonic() - t0
    write_evidence(pid, mod, tier, seed, ok, n, wall, known_seen, len(new_violations), n_violating_cases,
                   harness_errors, len(hung))
    for h in harness_errors:
        print("HARNESS: %s" % h)
    print("%s %s: %d runs, %d violating runs (%d new signatures, %d known findings), %.1fs" % (
        pid, tier, len(ok), n_violating_cases, len(new_violations), len(known_seen), wall))
    if exit_code == 0 and harness_errors:
        return 2
    return exit_code


def write_evidence(pid, mod, tier, seed, ok, n_planned, wall, known_seen, n_new, n_violating, harness_errors, n_hung):
    keys = {}
    agg = {}
    for r in ok:
        k = r.get("nontrivial")
        if k:
            keys[k] = keys.get(k, 0) + 1
        for sk, sv in (r.get("stats") or {}).items():
            if sk.startswith("max_"):
                agg[sk] = max(agg.get(sk, 0), sv)
            elif isinstance(sv, (int, float)):
                agg[sk] = agg.get(sk, 0) + sv
            elif isinstance(sv, list):
                d = agg.setdefault(sk, {})
                for x in sv:
                    d[x] = d.get(x, 0) + 1
            elif isinstance(sv, str):
                d = agg.setdefault(sk, {})
                d[sv] = d.get(sv, 0) + 1
    total_work = sum(r.get("work", 0) for r in ok)
    sim_s = sum(r.get("sim_s", 0.0) or 0.0 for r in ok)
    samples = []
    step = max(1, len(ok) // 4)
    for r in ok[::step][:4]:
        c = mod.gen_case(seed, r["i"], tier)
        samples.append({"case": mod.sample_view(c) if hasattr(mod, "sample_view") else c,
                        "clauses_failed": r["clauses"], "nontrivial_key": r.get("nontrivial")})
    # cap long dict-valued aggregates
    for k, v in list(agg.items()):
        if isinstance(v, dict) and len(v) > 60:
            top = sorted(v.items(), key=lambda kv: -kv[1])[:60]
            agg[k] = dict(top)
            agg[k + "_distinct"] = len(v)
    ev = {
        "property_id": pid, "tier": tier, "seed": seed, "level": mod.LEVEL,
        "coverage": {
            "evaluations": len(ok),
            "distinct_nontrivial": len(keys),
            "rule": mod.RULE if hasattr(mod, "RULE") else "",
            "samples": samples,
            "planned": n_planned,
            "runs_per_hour": int(len(ok) / wall * 3600) if wall > 0 else 0,
            "work_units": total_work,
            "simulated_seconds": round(sim_s, 3),
            "watchdog_kills": n_hung,
            "violating_runs": n_violating,
            "known_findings_seen": known_seen,
            "harness_errors": harness_errors[:20],
            "components": {
                "real": ["microjs lexer, parser, compiler, VM, regex engine, Context (imported from /repo/src working tree)"],
                "stub": ["time module (virtual clock)", "random (seeded)", "host callables (simulator actors)", "sys.stdout sink where used"],
            },
            "aggregates": agg,
        },
        "assumptions": getattr(mod, "ASSUMPTIONS", []),
        "wall_s": round(wall, 2),
        "violations": n_new,
    }
    if os.environ.get("SIMJS_NO_EVIDENCE") == "1":   # development runs against scratch trees
        return
    os.makedirs(os.path.join(VERIF, "evidence"), exist_ok=True)
    json.dump(ev, open(os.path.join(VERIF, "evidence", pid + ".json"), "w"), indent=1, sort_keys=True, default=repr)


def cmd_digests(pid, seed, tier, idxs):
    mod = load(pid)
    import world
    world.install()
    out = {}
    for i in idxs:
        res = mod.execute(mod.gen_case(seed, i, tier))
        out[str(i)] = [res.get("digest"), res.get("bdigest", res.get("digest"))]
    print(json.dumps(out))
    return 0


def cmd_selftest_determinism(n, pids):
    """Every case twice: two fresh interpreters with different PYTHONHASHSEED and different
    worker counts; digests must be equal."""
    bad = 0
    for pid in pids:
        mod = load(pid)
        if not getattr(mod, "HASHSEED_INDEPENDENT", True):
            continue
        idxs = ",".join(str(i) for i in range(n))
        runs = []
        for hs in ("0", "1", "77"):
            out = subprocess.run([sys.executable, os.path.abspath(__file__), "digests", pid, "0", "quick", idxs],
                                 env=dict(os.environ, PYTHONHASHSEED=hs), capture_output=True, text=True, timeout=3600)
            if out.returncode != 0:
                print(out.stderr[-2000:])
                return 2
            runs.append(json.loads(out.stdout.strip().splitlines()[-1]))
        diff = [i for i in runs[0] if not (runs[0][i] == runs[1][i] == runs[2][i])]   # full digests, work stamps included
        print("%s: %d cases x 3 fresh interpreters (hash seeds 0,1,77): %d differing" % (pid, n, len(diff)))
        if diff:
            print("  differing cases:", diff[:20])
            bad += 1
    return 2 if bad else 0


def main():
    ap = argparse.ArgumentParser()
    sub = ap.add_subparsers(dest="cmd")
    c = sub.add_parser("check")
    c.add_argument("pid")
    c.add_argument("--tier", default=os.environ.get("VERIF_TIER", "quick"))
    c.add_argument("--n", type=int)
    c.add_argument("--nproc", type=int)
    c.add_argument("--budget", type=float)
    r = sub.add_parser("replay")
    r.add_argument("path")
    d = sub.add_parser("digests")
    d.add_argument("pid")
    d.add_argument("seed", type=int)
    d.add_argument("tier")
    d.add_argument("idxs")
    s = sub.add_parser("selftest")
    s.add_argument("what")
    s.add_argument("--n", type=int, default=64)
    s.add_argument("--pids", default="C01,C02,C07,C10,C12")
    k = sub.add_parser("case")
    k.add_argument("pid")
    k.add_argument("seed", type=int)
    k.add_argument("index", type=int)
    k.add_argument("--tier", default="quick")
    w = sub.add_parser("c15worker")
    w.add_argument("seed", type=int)
    w.add_argument("tier")
    w.add_argument("variant")
    w.add_argument("only", nargs="?")
    a = ap.parse_args()
    if a.cmd == "c15worker":
        import c15
        digests, full = c15.worker(a.seed, a.tier, json.loads(a.variant), json.loads(a.only) if a.only else None)
        print(json.dumps({"digests": digests, "full": full}, default=repr))
        sys.exit(0)
    if a.cmd == "digests":
        # hash seed is chosen by the caller here
        os.environ.setdefault("SIMJS_CHILD", "1")
        sys.exit(cmd_digests(a.pid, a.seed, a.tier, [int(x) for x in a.idxs.split(",") if x]))
    _reexec_if_needed()
    if a.cmd == "check":
        if a.tier not in ("quick", "thorough"):
            a.tier = "quick"
        sys.exit(cmd_check(a.pid, a.tier, a.n, a.nproc, a.budget))
    if a.cmd == "replay":
        sys.exit(cmd_replay(a.path))
    if a.cmd == "selftest":
        sys.exit(cmd_selftest_determinism(a.n, [p for p in a.pids.split(",") if p in MODULES]))
    if a.cmd == "case":
        mod = load(a.pid)
        import world
        world.install()
        case = mod.gen_case(a.seed, a.index, a.tier)
        res = mod.execute(case)
        print(json.dumps({"case": case, "result": res}, indent=1, default=repr))
        sys.exit(0)
    ap.print_help()
    sys.exit(2)


if __name__ == "__main__":
    main()
