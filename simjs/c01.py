"""C01 -- the time limit bounds every evaluation.

Workload: script = PRELUDE ; WRAP(SITE(KEEPALIVE)), non-terminating by construction,
run with time_limit = T_work * tick under the virtual clock, so the deadline is a
position in the execution.  Faults: deadline (always), mono_jump, host_slow, wall_jump,
host re-entry before the keep-alive.  Control stratum: terminating twins with T >> need.
"""
import json
import math

import world as W
from common import (B_OVERRUN, substream, loguniform, sha1, OffsetTrack, jump_mono, run_eval,
                    landing, minimise)

PROPERTY = "C01"
LEVEL = "fault_enumeration"

CTL_N = 12  # iterations of every loop in the control (terminating) twin


def _c(ctl):
    return "(__c++ < %d)" % CTL_N if ctl else "true"


# ----------------------------------------------------------------- keep-alives
# each: name -> fn(ctl, p) -> (decl, stmt); p = dict of sub-parameters
def _loops():
    K = {}
    K["while"] = lambda c, p: ("", "while(%s){}" % _c(c))
    K["for"] = lambda c, p: ("", "for(;%s;){}" % _c(c))
    K["for_omitted"] = lambda c, p: ("", "for(;;){ if(!%s) break; }" % _c(c))
    K["dowhile"] = lambda c, p: ("", "do{}while(%s);" % _c(c))
    K["while_body"] = lambda c, p: ("", "var i1=0; while(%s){ i1++; i1 = i1 %% 7; }" % _c(c))
    K["nest_for"] = lambda c, p: ("", "while(%s){ for(var j1=0;j1<3;j1++){} }" % _c(c))
    K["nest_forin"] = lambda c, p: ("", "while(%s){ for(var k1 in {a:1,b:2}){} }" % _c(c))
    K["nest_forof"] = lambda c, p: ("", "while(%s){ for(var v1 of [1,2,3]){} }" % _c(c))
    K["label_continue"] = lambda c, p: ("", "L1: while(%s){ for(;;){ continue L1; } }" % _c(c))
    K["cond_expr"] = lambda c, p: ("", "var t1=0; while(%s){ t1 = t1 ? 0 : 1; t1 && t1; }" % _c(c))
    return K


def _recursion():
    K = {}
    K["self_rec"] = lambda c, p: ("function r1(n){ if(n>0) return r1(n-1)+1; return 0; }",
                                  "while(%s){ r1(15); }" % _c(c))
    K["mutual_rec"] = lambda c, p: ("function ra(n){ if(n>0) return rb(n-1); return 0; } function rb(n){ return ra(n); }",
                                    "while(%s){ ra(12); }" % _c(c))
    K["closure_rec"] = lambda c, p: ("function mk(){ var z=0; return function g(n){ z++; if(n>0) g(n-1); }; }",
                                     "var g1=mk(); while(%s){ g1(8); }" % _c(c))
    return K


_CB = {
    "forEach": "[1,2,3].forEach(function(x){ %s })",
    "map": "[1,2,3].map(function(x){ %s; return x; })",
    "filter": "[1,2,3].filter(function(x){ %s; return true; })",
    "reduce": "[1,2,3].reduce(function(a,x){ %s; return a+x; }, 0)",
    "reduceRight": "[1,2,3].reduceRight(function(a,x){ %s; return a+x; }, 0)",
    "find": "[1,2,3].find(function(x){ %s; return false; })",
    "findIndex": "[1,2,3].findIndex(function(x){ %s; return false; })",
    "some": "[1,2,3].some(function(x){ %s; return false; })",
    "every": "[1,2,3].every(function(x){ %s; return true; })",
    "sort": "[3,1,2].sort(function(a,b){ %s; return a-b; })",
}


def _callbacks():
    K = {}
    for name, tpl in _CB.items():
        K["cb_loop_" + name] = (lambda t: lambda c, p: ("", (t % ("while(%s){}" % _c(c))) + ";"))(tpl)
        K["loop_cb_" + name] = (lambda t: lambda c, p: ("", "while(%s){ %s; }" % (_c(c), t % "1")))(tpl)
    # large fan-out with short callbacks: the callbacks' instructions must count towards the poll
    big = "var B9=[]; for (var b9=0;b9<150;b9++){ B9.push((b9*37)%101); } "
    K["loop_big_forEach"] = lambda c, p: ("", big + "while(%s){ B9.forEach(function(x){ return x+1; }); }" % _c(c))
    K["loop_big_map_nested"] = lambda c, p: ("", big + "while(%s){ B9.map(function(x){ return [x,x+1,x+2].map(function(y){ return y*2; }); }); }" % _c(c))
    K["loop_big_sort_cmp"] = lambda c, p: ("", big + "while(%s){ B9.slice().sort(function(a,b){ return a-b; }); }" % _c(c))
    K["loop_big_reduce"] = lambda c, p: ("", big + "while(%s){ B9.reduce(function(a,x){ return a+x; }, 0); }" % _c(c))
    def native_big(c, p):
        size = p.get("nb_size", 4096)
        pad = " ".join("0;" for _ in range(p.get("nb_pad", 0)))
        op = {"slice": "cp9 = line9.slice(0);", "concat": "cp9 = line9.concat('');", "upper": "cp9 = line9.toUpperCase();",
              "split": "cp9 = line9.split('');", "arr_slice": "cp9 = arr9.slice(0);", "arr_concat": "cp9 = arr9.concat([]);",
              "repeat": "cp9 = '-'.repeat(%d);" % size}[p.get("nb_op", "slice")]
        pre = "var cp9, line9 = '-'.repeat(%d), arr9 = line9.split(''); " % size
        return ("", "%s%s for (var nb9 = 0; %s; nb9++) { %s }" % (pre, pad, _c(c), op))
    K["loop_native_big"] = native_big
    K["loop_sort_default"] = lambda c, p: ("", "var a9=[5,3,9,1]; while(%s){ a9.slice().sort(); }" % _c(c))
    return K


def _accessors():
    K = {}
    K["getter_loop"] = lambda c, p: ("", "var o1={get x(){ while(%s){} return 1; }}; o1.x;" % _c(c))
    K["loop_getter"] = lambda c, p: ("", "var o2={get x(){ return 1; }}; while(%s){ o2.x; }" % _c(c))
    K["setter_loop"] = lambda c, p: ("", "var o3={set x(v){ while(%s){} }}; o3.x=1;" % _c(c))
    K["loop_setter"] = lambda c, p: ("", "var o4={set x(v){ this.y=v; }}; while(%s){ o4.x=2; }" % _c(c))
    K["defprop_loop"] = lambda c, p: (
        "", "var o5={}; Object.defineProperty(o5,'x',{get:function(){ while(%s){} return 1; }}); o5.x;" % _c(c))
    K["loop_defprop"] = lambda c, p: (
        "", "var o6={}; Object.defineProperty(o6,'x',{get:function(){ return 1; }}); while(%s){ o6.x; }" % _c(c))
    K["valueof_add_loop"] = lambda c, p: ("", "var o7={valueOf:function(){ while(%s){} return 1; }}; o7+1;" % _c(c))
    K["loop_valueof_add"] = lambda c, p: ("", "var o8={valueOf:function(){ return 1; }}; while(%s){ o8+1; }" % _c(c))
    K["valueof_mul_loop"] = lambda c, p: ("", "var o9={valueOf:function(){ while(%s){} return 2; }}; o9*2;" % _c(c))
    K["loop_valueof_mul"] = lambda c, p: ("", "var oa={valueOf:function(){ return 2; }}; while(%s){ oa*2; }" % _c(c))
    K["tostring_loop"] = lambda c, p: ("", "var ob={valueOf:null, toString:function(){ while(%s){} return 's'; }}; ob+'';" % _c(c))
    K["loop_tostring"] = lambda c, p: ("", "var oc={valueOf:null, toString:function(){ return 's'; }}; while(%s){ oc+''; }" % _c(c))
    return K


def _callapply():
    K = {}
    K["call_loop"] = lambda c, p: ("function f1(){ while(%s){} }" % _c(c), "f1.call(null);")
    K["loop_call"] = lambda c, p: ("function f2(a){ return a; }", "while(%s){ f2.call(null, 1); }" % _c(c))
    K["apply_loop"] = lambda c, p: ("function f3(){ while(%s){} }" % _c(c), "f3.apply(null, []);")
    K["loop_apply"] = lambda c, p: ("function f4(a){ return a; }", "while(%s){ f4.apply(null, [1]); }" % _c(c))
    K["bind_loop"] = lambda c, p: ("function f5(){ while(%s){} }" % _c(c), "f5.bind(null)();")
    K["loop_bind"] = lambda c, p: ("function f6(a){ return a; }", "var b6=f6.bind(null,1); while(%s){ b6(); }" % _c(c))
    return K


def _nested_code():
    K = {}
    K["eval_loop"] = lambda c, p: ("", "eval(%s);" % json.dumps("while(%s){}" % _c(c)))
    K["loop_eval"] = lambda c, p: ("", "while(%s){ eval('1+1'); }" % _c(c))
    K["eval2_loop"] = lambda c, p: ("", "eval(%s);" % json.dumps("eval(%s)" % json.dumps("while(%s){}" % _c(c))))
    K["eval3_loop"] = lambda c, p: ("", "eval(%s);" % json.dumps(
        "eval(%s)" % json.dumps("eval(%s)" % json.dumps("while(%s){}" % _c(c)))))
    K["eval_fn_loop"] = lambda c, p: ("", "eval(%s);" % json.dumps("function ef(){ while(%s){} } ef();" % _c(c)))
    K["newfn_loop"] = lambda c, p: ("", "new Function(%s)();" % json.dumps("while(%s){}" % _c(c)))
    K["loop_newfn_call"] = lambda c, p: ("", "var g7=new Function('a','return a+1'); while(%s){ g7(1); }" % _c(c))
    K["loop_newfn_make"] = lambda c, p: ("", "while(%s){ new Function('return 1'); }" % _c(c))
    def chain(c, p):
        n = CTL_N if c else max(1, int(p.get("chain_iters", 1000)))
        busy = "for(var bz=0;bz<%d;bz++){}" % n
        src = busy
        for _ in range(int(p.get("chain_depth", 3))):
            src = "%s eval(%s);" % (busy, json.dumps(src))
        return ("", src)
    K["eval_chain_busy"] = chain
    # exponential recursion through nested interpreters: every nested VM runs a handful of
    # instructions (far fewer than its own poll cadence), the outer one hardly any
    def eval_tree(c, p):
        depth = 4 if c else 45
        return ("var dd9=0; function ft9(){ dd9++; if (dd9 < %d) { eval('ft9(); ft9()'); } dd9--; }" % depth, "ft9();")
    K["eval_tree"] = eval_tree

    def newfn_tree(c, p):
        depth = 4 if c else 45
        return ("var dn9=0; function fn9(){ dn9++; if (dn9 < %d) { new Function('fn9(); fn9()')(); } dn9--; }" % depth, "fn9();")
    K["newfn_tree"] = newfn_tree
    # a prototype chain the script tries to close into a cycle, then instanceof / lookups along it
    K["proto_cycle"] = lambda c, p: (
        "function F9(){}",
        "var p9={}, o9=Object.create(p9); try { Object.setPrototypeOf(p9, o9); } catch (e9) {} "
        "var q9={}; try { Object.setPrototypeOf(q9, q9); } catch (e8) {} "
        "try { Object.setPrototypeOf(Object.prototype, {}); } catch (e7) {} "
        "try { Object.setPrototypeOf(Error.prototype, new TypeError('x')); } catch (e6) {} "
        "try { var z9 = Object.create(o9); Object.setPrototypeOf(p9, Object.create(z9)); } catch (e5) {} "
        "while(%s){ o9 instanceof F9; o9.zz9; q9 instanceof F9; q9.zz9 = 1; ({}) instanceof F9; [] instanceof F9; "
        "new TypeError('y') instanceof F9; Object.prototype.isPrototypeOf(o9); }" % _c(c))
    K["fn_eval_loop"] = lambda c, p: ("", "var g8=new Function(%s); g8();" % json.dumps(
        "eval(%s)" % json.dumps("while(%s){}" % _c(c))))
    return K


def _host():
    K = {}
    K["loop_host"] = lambda c, p: ("", "while(%s){ p('h'); }" % _c(c))
    K["loop_slow"] = lambda c, p: ("", "while(%s){ slow(%r); }" % (_c(c), p.get("slow", 0.0005)))
    K["loop_reenter"] = lambda c, p: ("", "while(%s){ reenter('1+1'); }" % _c(c))
    return K


RX_FAMILIES = {
    # cheap to match, long to compile: with a pattern given as a string the compilation is part of every call
    "big_count": ("a{5000}b|(?:ab){1500}c", "a"),
    "nested_plus": ("(a+)+b", "a"),
    "alt_overlap": ("(a|aa)+b", "a"),
    "star_star": ("(a*)*b", "a"),
    "backref": ("(a*)\\1*b", "a"),
    "look_ahead": ("(?=(a+)+b)", "a"),
    "look_ahead_alt": ("x*(?=(a|aa)+b)", "a"),
    "look_behind": ("(?<=(a+)+b)c", "a"),
    # the lookbehind is reached only at the end of the subject, where one main step retries the
    # catastrophic body from every earlier position
    "look_behind_late": ("x(?<=(a+)+b)", "a"),
    "neg_look_behind_late": ("x(?<!(a+)+b)y", "a"),
    "neg_look_ahead": ("(?!(a+)+b)z", "a"),
    "dot_star": ("(.*)*b", "a"),
}
RX_APIS = {
    "test": "%(R)s.test(%(S)s)",
    "exec": "%(R)s.exec(%(S)s)",
    "match": "%(S)s.match(%(R)s)",
    "search": "%(S)s.search(%(R)s)",
    "replace": "%(S)s.replace(%(R)s, 'x')",
    "replaceAll": "%(S)s.replaceAll(%(RG)s, 'x')",
    "split": "%(S)s.split(%(R)s)",
    "match_g": "%(S)s.match(%(RG)s)",
    "match_str": "%(S)s.match(%(P)s)",
    "search_str": "%(S)s.search(%(P)s)",
}
RX_BUILD = ("literal", "ctor_new", "ctor_call", "hoisted_literal", "hoisted_ctor", "setup_literal", "setup_ctor", "setup_eval")


def _regex_stmt(c, p):
    fam = p["rx_family"]
    api = p["rx_api"]
    build = p["rx_build"]
    n = 3 if c else p.get("rx_n", 26)
    pat, ch = RX_FAMILIES[fam]
    subj = json.dumps(ch * n + {"look_behind": "c", "look_behind_late": "x", "neg_look_behind_late": "x"}.get(fam, ""))
    if fam == "look_behind":
        # lookbehind is tried at every position; put the `c` at the end so it runs late
        pass
    lit = "/%s/" % pat
    litg = "/%s/g" % pat
    pj = json.dumps(pat)
    pre = ""
    if build == "literal":
        R, RG = lit, litg
    elif build == "ctor_new":
        R, RG = "new RegExp(%s)" % pj, "new RegExp(%s,'g')" % pj
    elif build == "ctor_call":
        R, RG = "RegExp(%s)" % pj, "RegExp(%s,'g')" % pj
    elif build == "hoisted_literal":
        pre = "var rx1=%s, rx1g=%s; " % (lit, litg)
        R, RG = "rx1", "rx1g"
    elif build.startswith("setup_"):
        # the RegExp objects were created by an EARLIER eval on the same context (see setup_src)
        R, RG = "rxs", "rxsg"
    else:
        pre = "var rx2=new RegExp(%s), rx2g=new RegExp(%s,'g'); " % (pj, pj)
        R, RG = "rx2", "rx2g"
    call = RX_APIS[api] % {"R": R, "RG": RG, "S": subj, "P": pj}
    mode = p.get("rx_mode", "loop")
    if mode == "once" and not c:
        # single match on a long subject followed by a keep-alive: the deadline may land
        # inside the match or after it
        return ("", "%s%s; while(true){ %s; }" % (pre, call, call))
    return ("", "%swhile(%s){ %s; }" % (pre, _c(c), call))


KEPT_SETUP = ("var arr9=[3,1,2], each9=arr9.forEach, map9=arr9.map, sort9=arr9.sort, red9=arr9.reduce, fil9=arr9.filter, some9=arr9.some; "
              "function kf9(x){ for (var i9=0;i9<300;i9++){} return x; } var call9=kf9.call, apply9=kf9.apply; "
              "var rx9=/(a+)+b/, tst9=rx9.test, ex9=rx9.exec; var S9='aaaaaaaaaaaaaaaaaaaaaaaaaa'; "
              "var mt9=S9.match, sr9=S9.search, rp9=S9.replace, sp9=S9.split; 'setup';")
KEPT_USES = {
    "each": "each9(kf9);", "map": "map9(kf9);", "filter": "fil9(kf9);", "some": "some9(function(x){ kf9(x); return false; });",
    "sort": "sort9(function(a,b){ kf9(a); return a-b; });", "reduce": "red9(function(a,x){ return kf9(a+x); }, 0);",
    "call": "call9(null, 1);", "apply": "apply9(null, [1]);",
    "rx_test": "tst9(S9);", "rx_exec": "ex9(S9);", "str_match": "mt9(rx9);", "str_match_str": "mt9('(a+)+b');",
    "str_search": "sr9(rx9);", "str_replace": "rp9(rx9, 'x');", "str_split": "sp9(rx9);",
    "str_replace_fn": "rp9(/a/g, function(m){ kf9(1); return m; });",
}


def setup_src(cell):
    """Source of an eval that runs on the same context before the measured one (or None)."""
    p = cell.get("params", {})
    if cell["keepalive"] == "kept_method":
        return KEPT_SETUP
    if cell["keepalive"] != "regex" or not p.get("rx_build", "").startswith("setup_"):
        return None
    pat = RX_FAMILIES[p["rx_family"]][0]
    pj = json.dumps(pat)
    if p["rx_build"] == "setup_literal":
        return "var rxs=/%s/, rxsg=/%s/g; 'setup';" % (pat, pat)
    if p["rx_build"] == "setup_ctor":
        return "var rxs=new RegExp(%s), rxsg=new RegExp(%s,'g'); 'setup';" % (pj, pj)
    return "eval(%s); 'setup';" % json.dumps("var rxs=/%s/, rxsg=/%s/g;" % (pat, pat))


def _regex():
    return {"regex": _regex_stmt}


def _phases():
    """A stretch of cheap instructions, then (well before the deadline) a never-ending stretch of
    instructions that are each bounded but ~40 times more costly: whatever the engine learnt about
    its own speed in the first phase must not decide when it looks at the clock in the second."""
    def phase_change(c, p):
        return ("", "var O9={}; for(var q9=0;q9<60;q9++){ O9['k'+q9]=[q9,{a:q9,b:'x'+q9}]; } var S9=JSON.stringify(O9); "
                    "for (var ph9=0; ph9<%d; ph9++){} while(%s){ JSON.parse(S9); }" % (p.get("ph_iters", 1000), _c(c)))
    def native_cb_grow(c, p):
        # the callback is a native function that grows the very array the built-in iterates over:
        # no script instruction runs between two calls, so only the built-in's own loop can end it
        return ("", "while(%s){ var a9=[1,2]; a9.%s(a9.%s); }" % (_c(c), p.get("ng_method", "forEach"), p.get("ng_fn", "push")))

    def pow_tower(c, p):
        # arithmetic whose exact result would not fit any machine: each step must stay one bounded step
        return ("", "var x9=%s; while(%s){ x9 = x9 %s; }" % (p.get("pt_base", "3"), _c(c), p.get("pt_op", "** 3")))
    def builtin_edge(c, p):
        # one numeric built-in fed, forever, with the edge values of the number line: every single
        # call is a bounded step whatever the value (an error that ends the evaluation early is not
        # a matter for this property)
        vals = p.get("be_vals", list(EDGE_VALUES))
        return ("", "var f9 = %s; var v9 = [%s]; var i9 = 0; while(%s){ f9(v9[i9 %% v9.length], v9[(i9 >> 4) %% v9.length]); i9++; }"
                    % (EDGE_FNS[p.get("be_fn", "Math.clz32")], ", ".join(vals), _c(c)))
    def kept_method(c, p):
        # built-in methods taken off their objects by an EARLIER evaluation (see setup_src) and called
        # now: what they run is bounded by this evaluation's limit, and only by it
        return ("", "while(%s){ %s }" % (_c(c), KEPT_USES[p.get("km_use", "each")]))
    return {"phase_change": phase_change, "native_cb_grow": native_cb_grow, "pow_tower": pow_tower, "builtin_edge": builtin_edge,
            "kept_method": kept_method}


EDGE_VALUES = ("0", "-0", "1", "-1", "0.5", "-1.5", "NaN", "Infinity", "-Infinity", "2147483647", "2147483648", "-2147483648",
               "4294967295", "4294967296", "-4294967296", "9007199254740992", "-9007199254740992", "1e21", "1e300", "-1e300",
               "5e-324", "1.7976931348623157e308", "'12'", "null", "undefined", "true", "[]", "({})", "''", "'x'")
EDGE_FNS = {("Math." + n): ("Math." + n) for n in (
    "abs floor ceil round trunc min max pow sqrt sin cos tan asin acos atan atan2 log exp sign imul fround clz32 hypot cbrt "
    "log2 log10 expm1 log1p").split()}
EDGE_FNS.update({
    "toString_radix": "function(v, w){ return Number(v).toString(2) + Number(v).toString(36); }",
    "toFixed": "function(v, w){ return Number(v).toFixed(2) + Number(v).toFixed(0); }",
    "toPrecision": "function(v, w){ return Number(v).toPrecision(3); }",
    "toExponential": "function(v, w){ return Number(v).toExponential(2); }",
    "parseInt": "function(v, w){ return parseInt(String(v)) + parseInt(String(v), 16) + parseFloat(String(v)); }",
    "Number": "function(v, w){ return Number(v) + Number(String(v)) + (+v); }",
    "isX": "function(v, w){ return [isNaN(v), isFinite(v), Number.isInteger(v), Number.isNaN ? Number.isNaN(v) : 0]; }",
    "bitops": "function(v, w){ return [v | 0, v >>> 0, v >> w, v << w, v >>> w, v & w, v ^ w, ~v]; }",
    "arith": "function(v, w){ return [v % w, v / w, v * w, v - w, v + w, -v, v ** 2, 2 ** v, v ** w]; }",
    "compare": "function(v, w){ return [v < w, v <= w, v == w, v === w, v != w]; }",
    "charAt": "function(v, w){ return 'abc'.charAt(v) + 'abc'.charCodeAt(v) + 'abc'[v]; }",
    "substring": "function(v, w){ return 'abcdef'.substring(v, w) + 'abcdef'.slice(v, w); }",
    "str_index": "function(v, w){ return ['abcabc'.indexOf('c', v), 'abcabc'.lastIndexOf('c', v), 'abc'.includes('c', v), 'abc'.startsWith('c', v), 'abc'.endsWith('c', v)]; }",
    "arr_slice": "function(v, w){ return [1, 2, 3].slice(v, w).length + [1, 2, 3].indexOf(2, v) + [1, 2, 3].lastIndexOf(2, v); }",
    "arr_splice": "function(v, w){ var a = [1, 2, 3]; a.splice(v, w); return a.length; }",
    "arr_index": "function(v, w){ var a = [1, 2, 3]; return [a[v], a.includes(2, v), a.at ? a.at(v) : 0]; }",
    "fromCharCode": "function(v, w){ return String.fromCharCode(v).length; }",
    "String": "function(v, w){ return String(v) + (v + '') + [v].join() + JSON.stringify(v) + JSON.stringify([v, w]); }",
    "Date": "function(v, w){ return typeof Date.now() ; }",
    "regex_lastIndex": "function(v, w){ var r = /a/g; r.lastIndex = v; return [r.test('aaa'), r.lastIndex]; }",
    "split_limit": "function(v, w){ return 'a,b,c'.split(',', v).length; }",
    "typed": "function(v, w){ var t = new Int32Array(2); t[0] = v; var u = new Uint8Array(2); u[1] = v; return [t[0], u[1], t[v]]; }",
})
EDGE_FN_NAMES = sorted(EDGE_FNS)


KEEPALIVES = {}
for _f in (_loops, _recursion, _callbacks, _accessors, _callapply, _nested_code, _host, _regex, _phases):
    KEEPALIVES.update(_f())
KEEPALIVE_NAMES = sorted(KEEPALIVES)


# ----------------------------------------------------------------- sites
# each: fn(decl, stmt, u) -> (decl, stmt)   (u = unique suffix)
def _s_top(d, s, u):
    return d, s


def _s_function(d, s, u):
    return d, "function sf%s(){ %s } sf%s();" % (u, s, u)


def _s_fnexpr(d, s, u):
    return d, "var se%s=function(){ %s }; se%s();" % (u, s, u)


def _s_arrow(d, s, u):
    return d, "var sa%s=() => { %s }; sa%s();" % (u, s, u)


def _s_ctor(d, s, u):
    return d, "function SC%s(){ %s } new SC%s();" % (u, s, u)


def _s_method(d, s, u):
    return d, "var sm%s={m:function(){ %s }}; sm%s.m();" % (u, s, u)


def _s_cb(name):
    tpl = _CB[name]

    def f(d, s, u):
        return d, (tpl % s) + ";"
    return f


def _s_getter(d, s, u):
    return d, "var sg%s={get x(){ %s return 1; }}; sg%s.x;" % (u, s, u)


def _s_setter(d, s, u):
    return d, "var ss%s={set x(v){ %s }}; ss%s.x=1;" % (u, s, u)


def _s_valueof(d, s, u):
    return d, "var sv%s={valueOf:function(){ %s return 1; }}; sv%s*2;" % (u, s, u)


def _s_tostring(d, s, u):
    return d, "var st%s={valueOf:null, toString:function(){ %s return 'q'; }}; st%s+'';" % (u, s, u)


def _s_call(d, s, u):
    return d, "function sc%s(){ %s } sc%s.call(null);" % (u, s, u)


def _s_apply(d, s, u):
    return d, "function sp%s(){ %s } sp%s.apply(null, []);" % (u, s, u)


def _s_bind(d, s, u):
    return d, "function sb%s(){ %s } sb%s.bind(null)();" % (u, s, u)


def _s_eval(d, s, u):
    # helper declarations stay global (they are hoisted in the outer program)
    return d, "eval(%s);" % json.dumps(s)


def _s_newfn(d, s, u):
    return d, "new Function(%s)();" % json.dumps(s)


def _s_iife(d, s, u):
    return d, "(function(){ %s })();" % s


SITES = {
    "top": _s_top, "function": _s_function, "fnexpr": _s_fnexpr, "arrow": _s_arrow, "ctor": _s_ctor,
    "method": _s_method, "getter": _s_getter, "setter": _s_setter, "valueOf": _s_valueof,
    "toString": _s_tostring, "call": _s_call, "apply": _s_apply, "bind": _s_bind,
    "eval": _s_eval, "newfn": _s_newfn, "iife": _s_iife,
}
for _n in _CB:
    SITES["cb_" + _n] = _s_cb(_n)
SITE_NAMES = sorted(SITES)

# ----------------------------------------------------------------- wrappers
WRAPS = {
    "none": lambda x, c: x,
    "try_catch": lambda x, c: "try{ %s }catch(e){ p('c'); }" % x,
    "try_finally": lambda x, c: "try{ %s }finally{ p('f'); }" % x,
    "try_catch_finally": lambda x, c: "try{ %s }catch(e){ p('c'); }finally{ p('f'); }" % x,
    "retry_loop": lambda x, c: "while(%s){ try{ %s }catch(e){ p('r'); } }" % (_c(c), x),
    "catch_then_loop": lambda x, c: "try{ %s }catch(e){ p('c'); } while(%s){ p('l'); }" % (x, _c(c)),
    "finally_then_loop": lambda x, c: "try{ %s }finally{ while(%s){ p('l'); } }" % (x, _c(c)),
}
WRAP_NAMES = sorted(WRAPS)

PRELUDES = ("none", "work", "reenter", "slow", "regex", "reenter_regex")

# Combinations whose *terminating twin* does not run on the pinned tree for reasons that
# have nothing to do with limits (found by preflight_c01.py); they are not generated.
#  * a labelled `continue` of an outer loop never terminates at the top level of a program.


def excluded(cell, control):
    sites = cell["sites"]
    if control and cell["keepalive"] == "label_continue" and all(s in ("top", "eval") for s in sites):
        return True
    return False


def render(cell, ctl=False):
    p = cell.get("params", {})
    d, s = KEEPALIVES[cell["keepalive"]](ctl, p)
    sites = cell["sites"]
    wrap_at = cell.get("wrap_at", "outer")
    if wrap_at == "inner":
        s = WRAPS[cell["wrap"]](s, ctl)
    for depth, site in enumerate(sites):
        d, s = SITES[site](d, s, str(depth))
    if wrap_at == "outer":
        s = WRAPS[cell["wrap"]](s, ctl)
    pre = cell.get("prelude", "none")
    ptxt = ""
    if pre == "work":
        ptxt = "for(var q0=0;q0<%d;q0++){ q0*2; }" % p.get("prelude_n", 50)
    elif pre == "reenter":
        ptxt = "reenter('1+1');"
    elif pre == "slow":
        ptxt = "slow(%r);" % p.get("prelude_slow", 0.001)
    elif pre == "regex":
        ptxt = "var rq=new RegExp('a+'); rq.test('caaa');"
    elif pre == "reenter_regex":
        ptxt = "reenter('/a/.test(\"a\")'); var rq2=new RegExp('b'); rq2.test('abc');"
    return "var __c=0;\n%s\n%s\n%s\n\"done\";" % (d, ptxt, s)


# ----------------------------------------------------------------- generation
def n_cases(tier):
    return 2600 if tier == "quick" else 60000


def gen_case(seed, i, tier="quick"):
    rng = substream(seed, "c01", i)
    # enumerate (keepalive, site, wrap) so that a prefix of cases covers the product evenly:
    # the i-th case takes the i-th element of a seeded shuffle of the base product
    nk, ns, nw = len(KEEPALIVE_NAMES), len(SITE_NAMES), len(WRAP_NAMES)
    total = nk * ns * nw
    perm_rng = substream(seed, "c01perm", i // total)
    # a cheap bijection on range(total): multiply by a unit modulo total, add offset
    a = _coprime(perm_rng.randrange(1, total), total)
    b = perm_rng.randrange(total)
    j = (a * (i % total) + b) % total
    ka = KEEPALIVE_NAMES[j % nk]
    site = SITE_NAMES[(j // nk) % ns]
    wrap = WRAP_NAMES[(j // (nk * ns)) % nw]
    sites = [site]
    if rng.random() < 0.25:
        sites.append(rng.choice(SITE_NAMES))
    params = {}
    if ka == "regex":
        params["rx_family"] = rng.choice(sorted(RX_FAMILIES))
        params["rx_api"] = rng.choice(sorted(RX_APIS))
        params["rx_build"] = rng.choice(RX_BUILD)
        params["rx_n"] = rng.choice((18, 22, 26, 30, 40))
        params["rx_mode"] = rng.choice(("loop", "once"))
    # built-ins on 1-8 KiB operands with a seeded number of steps per iteration and phase
    if ka != "regex" and rng.random() < 0.18:
        ka = "loop_native_big"
    if ka == "loop_native_big":
        params["nb_size"] = rng.choice((1024, 2048, 3072, 4096, 5120, 8192))
        params["nb_pad"] = rng.randrange(0, 40)
        params["nb_op"] = rng.choice(("slice", "concat", "upper", "split", "arr_slice", "arr_concat", "repeat"))
    # regex cells are one keep-alive name but a large sub-product: give them extra weight
    if ka not in ("regex", "loop_native_big") and rng.random() < 0.12:
        ka = "regex"
        params["rx_family"] = rng.choice(sorted(RX_FAMILIES))
        params["rx_api"] = rng.choice(sorted(RX_APIS))
        params["rx_build"] = rng.choice(RX_BUILD)
        params["rx_n"] = rng.choice((18, 22, 26, 30, 40))
        params["rx_mode"] = rng.choice(("loop", "once"))
    tick = 10 ** rng.uniform(-6, -4)
    hi = 30000 if tier == "quick" else 300000
    t_work = loguniform(rng, 300, hi)
    if ka == "eval_chain_busy":
        # bounded script: every nesting level is busy for 0.8 T (about 45 work units per empty
        # iteration); it may finish only if it does so within T + B
        t_work = rng.choice((300_000, 450_000, 600_000))
        params["chain_depth"] = rng.choice((2, 3, 4))
        params["chain_iters"] = int(0.8 * t_work / 45)
        params["bounded"] = True
    if ka == "native_cb_grow":
        params["ng_method"] = rng.choice(("forEach", "map", "filter", "every", "find", "findIndex", "some", "reduce", "reduceRight"))
        params["ng_fn"] = rng.choice(("push", "push", "unshift"))
    if ka == "pow_tower":
        params["pt_base"] = rng.choice(("3", "-3", "1.5", "7"))
        params["pt_op"] = rng.choice(("** 3", "** 2", "** x9", "* x9", "** 40000000"))
    if ka not in ("regex", "loop_native_big", "eval_chain_busy") and rng.random() < 0.04:
        ka = "builtin_edge"
    if ka not in ("regex", "loop_native_big", "eval_chain_busy", "builtin_edge") and rng.random() < 0.02:
        ka = "kept_method"
    if ka == "kept_method":
        params["km_use"] = rng.choice(sorted(KEPT_USES))
    if ka == "builtin_edge":
        params["be_fn"] = rng.choice(EDGE_FN_NAMES)
        vals = list(EDGE_VALUES)
        rng.shuffle(vals)
        params["be_vals"] = vals
        params["may_fail"] = True
    if ka == "phase_change":
        t_work = rng.choice((150_000, 200_000, 300_000))
        params["ph_iters"] = int(rng.choice((0.2, 0.3, 0.4, 0.6)) * t_work / 45)
    if tier != "quick" and rng.random() < 0.02 and ka != "phase_change":
        t_work = rng.randrange(1_000_000, 2_000_000)
    long_stall = False
    if ka == "loop_slow" or (ka not in ("regex", "phase_change", "eval_chain_busy", "kept_method") and rng.random() < 0.04):
        # a limit much longer than the overrun allowance, cut short by time in which the process does
        # not run (host calls that wait, the process descheduled): an engine that only counted its own
        # running time would come back a whole T of work late
        t_work = rng.choice((600_000, 1_000_000))
        long_stall = True
    prelude = rng.choice(PRELUDES) if rng.random() < 0.5 else "none"
    params["prelude_n"] = rng.randrange(0, 400)
    T = t_work * tick
    params["prelude_slow"] = round(T * rng.choice((0.1, 0.5, 0.9, 1.5)), 9)
    params["slow"] = round(T * rng.choice((0.001, 0.01, 0.2)), 9)
    control = rng.random() < 0.15
    faults = []
    if long_stall and not control and ka != "loop_slow":
        faults.append({"kind": "mono_jump", "at_work": rng.randrange(1, 100_000), "delta": round(T * rng.choice((0.9, 1.0, 3.0)), 9)})
    elif not control:
        r = rng.random()
        if r < 0.15:
            faults.append({"kind": "mono_jump", "at_work": rng.randrange(1, max(2, t_work)),
                           "delta": round(T * rng.choice((0.3, 0.9, 1.0, 3.0)), 9)})
        elif r < 0.25:
            faults.append({"kind": "wall_jump", "at_work": rng.randrange(1, max(2, t_work)),
                           "delta": -round(T * rng.choice((2.0, 10.0, 1000.0)), 9)})
        elif r < 0.30:
            faults.append({"kind": "wall_jump", "at_work": 0, "delta": -round(T * 5.0, 9)})
    else:
        if rng.random() < 0.3:
            faults.append({"kind": "wall_jump", "at_work": rng.randrange(1, 2000),
                           "delta": round(rng.choice((1.0, 3600.0, 1e6)), 3)})
    cell = {"keepalive": ka, "sites": sites, "wrap": wrap, "wrap_at": rng.choice(("outer", "outer", "inner")),
            "prelude": prelude, "params": params}
    if excluded(cell, control):
        cell["sites"] = ["function"]
    case = {
        "property": PROPERTY, "seed": seed, "index": i, "control": control, "cell": cell,
        "world": {"tick": tick, "epoch": round(rng.uniform(0, 1e6), 3), "wall_epoch": 1.7e9},
        "T_work": t_work if not control else 40_000_000,
        "M": rng.choice((None, None, 8 * 1024 * 1024)),
        "faults": faults,
    }
    case["src"] = render(cell, ctl=control)
    return case


def _coprime(a, n):
    while math.gcd(a, n) != 1:
        a += 1
    return a


# ----------------------------------------------------------------- execution + oracle
def execute(case):
    W.install()
    from microjs import Context
    wd = case["world"]
    W.reset(tick=wd["tick"], epoch=wd["epoch"], wall_epoch=wd.get("wall_epoch", 1.7e9), seed=case.get("seed", 0))
    S = W.S
    T_work = case["T_work"]
    T = T_work * S.tick
    ctx = Context(time_limit=T, memory_limit=case.get("M"))
    track = OffsetTrack()
    probes = []

    def p(*a):
        k = a[0] if a else None
        probes.append((S.work, W.now(), k))
        if len(probes) <= 50:
            W.log("host_call", "p", k)
        return None

    def slow(*a):
        d = float(a[0]) if a else 0.0
        S.mono_off += d
        track.note()
        W.log("host_call", "slow", round(d, 9))
        return None

    reenters = [0]

    def reenter(*a):
        reenters[0] += 1
        if reenters[0] <= 50:
            W.log("host_call", "reenter", a[0] if a else None)
        return ctx.eval(a[0]) if a else None

    ctx.set("p", p)
    ctx.set("slow", slow)
    ctx.set("reenter", reenter)

    fired = []
    base = S.work
    for f in case.get("faults", []):
        if f["kind"] == "mono_jump":
            def fn(f=f):
                jump_mono(track, f["delta"], "mono_jump")
                fired.append("mono_jump")
            W.schedule(base + f["at_work"], fn)
        elif f["kind"] == "wall_jump":
            def fn2(f=f):
                S.wall_off += f["delta"]
                W.log("fault_fired", "wall_jump", f["delta"])
                fired.append("wall_jump")
            if f["at_work"] <= 0:
                fn2()
            else:
                W.schedule(base + f["at_work"], fn2)

    ssrc = setup_src(case["cell"])
    if ssrc is not None:
        so = run_eval(ctx, ssrc, 3_000_000)
        W.log("setup", so["kind"])
        if so["kind"] != "value":
            # the setup eval itself ran into the (tiny) time limit: nothing to measure
            return {"outcome": "setup_failed", "cls": so.get("cls"), "msg": so.get("msg"), "value": None, "work": 0, "cross": None,
                    "overrun": 0, "elapsed": 0.0, "T": T, "clock_reads": 0, "landing": "", "fired": [], "n_probes": 0, "reenters": 0,
                    "digest": W.digest(), "bdigest": W.bdigest(), "late_probes": 0,
                    "violations": [{"clause": "precondition", "detail": "setup eval ended in %s" % so["kind"]}]}
        # the process was descheduled between the two evals (more than T passes)
        S.mono_off += 2.5 * T
    off0 = S.mono_off
    cap_extra = (T_work if not case["control"] else 3_000_000) + 5 * B_OVERRUN
    out = run_eval(ctx, case["src"], cap_extra, track)
    deadline = out["start_now"] + T
    cross = track.cross_work(out["start_work"], out["end_work"], off0, deadline)
    overrun = (out["end_work"] - cross) if cross is not None else 0
    res = {
        "outcome": out["kind"], "cls": out.get("cls"), "msg": out.get("msg"), "value": out.get("value"),
        "work": out["end_work"] - out["start_work"], "cross": (cross - out["start_work"]) if cross is not None else None,
        "overrun": overrun, "elapsed": out["end_now"] - out["start_now"], "T": T,
        "clock_reads": out["clock_reads"], "landing": landing(out.get("sites", [])),
        "fired": fired + (["deadline"] if cross is not None else []),
        "n_probes": len(probes), "reenters": reenters[0],
        "digest": W.digest(), "bdigest": W.bdigest(),
    }
    # probes that fired long after the deadline (swallowed stop)
    late = [k for (w, t, k) in probes if cross is not None and w > cross + B_OVERRUN and k in ("c", "r", "l", "f")]
    res["late_probes"] = len(late)
    res["violations"] = judge(case, res)
    return res


def judge(case, r):
    v = []
    if case["control"]:
        if r["outcome"] == "limit_time":
            if r["elapsed"] <= r["T"]:
                v.append({"clause": "C01.early", "detail": "TimeLimitError after %.6fs of a %.6fs limit (bounded script)" % (r["elapsed"], r["T"])})
        elif r["outcome"] == "cap":
            v.append({"clause": "precondition", "detail": "control script did not finish"})
        elif r["outcome"] in ("js_error", "host_exc") and case["cell"].get("params", {}).get("may_fail"):
            pass
        elif not (r["outcome"] == "value" and r["value"] == "done"):
            v.append({"clause": "precondition", "detail": "control twin ended in %s %s %s" % (r["outcome"], r["cls"], r["msg"])})
        return v
    if r["outcome"] == "cap":
        if r["late_probes"]:
            v.append({"clause": "C01.swallow", "detail": "%d handler/retry probes ran more than B after the deadline" % r["late_probes"]})
        else:
            v.append({"clause": "C01.hang", "detail": "no return %d work units after the deadline" % r["overrun"]})
        return v
    if r["outcome"] == "limit_time":
        if r["elapsed"] <= r["T"] * (1 - 1e-9):
            v.append({"clause": "C01.early", "detail": "TimeLimitError after %.9fs of a %.9fs limit" % (r["elapsed"], r["T"])})
        if r["clock_reads"] == 0:
            v.append({"clause": "harness", "detail": "TimeLimitError without a virtual clock read: clock seam bypassed"})
    elif r["outcome"] == "limit_mem" and case.get("M"):
        v.append({"clause": "precondition", "detail": "MemoryLimitError in a C01 cell"})
    elif r["outcome"] == "value" and case["cell"].get("params", {}).get("bounded"):
        pass  # a bounded long-running script may finish; the overrun clause below still applies
    elif r["outcome"] in ("js_error", "host_exc", "value") and case["cell"].get("params", {}).get("may_fail"):
        pass  # a built-in refused an edge value (the script may have caught that and finished): the
        # evaluation ended, which is all this property asks
    else:
        v.append({"clause": "C01.class", "detail": "non-terminating script ended in %s %s: %s" % (
            r["outcome"], r["cls"], (r["msg"] if r["outcome"] != "value" else json.dumps(r["value"])))})
    if r["overrun"] > B_OVERRUN:
        v.append({"clause": "C01.overrun", "detail": "%d work units after the deadline (bound %d)" % (r["overrun"], B_OVERRUN)})
    return v


# ----------------------------------------------------------------- signature / minimisation
def features(case, res=None):
    """Class signature: the structural features of a (minimised) case."""
    cell = case["cell"]
    f = ["keepalive:" + (cell["keepalive"] if cell["keepalive"] != "regex" else "regex")]
    f += ["site:" + s for s in cell["sites"] if s != "top"]
    if cell["wrap"] != "none":
        f.append("wrap:" + cell["wrap"])
    if cell.get("prelude", "none") != "none":
        f.append("prelude:" + cell["prelude"])
    if cell["keepalive"] == "regex":
        p = cell["params"]
        f.append("rx_family:" + p["rx_family"])
        f.append("rx_build:" + p["rx_build"])
        f.append("rx_api:" + p["rx_api"])
    for flt in case.get("faults", []):
        f.append("fault:" + flt["kind"])
    return sorted(set(f))


def shrink_candidates(case):
    """Smaller cases, simplest first."""
    cell = case["cell"]

    def mk(**kw):
        c = json.loads(json.dumps(case))
        for k, val in kw.items():
            if k in ("faults", "M", "T_work", "world"):
                c[k] = val
            else:
                c["cell"][k] = val
        c["src"] = render(c["cell"], ctl=c["control"])
        return c
    if case.get("faults"):
        yield mk(faults=[])
    if cell.get("prelude", "none") != "none":
        yield mk(prelude="none")
    if cell["wrap"] != "none":
        yield mk(wrap="none")
    if len(cell["sites"]) > 1:
        yield mk(sites=cell["sites"][:1])
        yield mk(sites=cell["sites"][1:])
    if cell["sites"] != ["top"]:
        yield mk(sites=["top"])
    if case.get("M") is not None:
        yield mk(M=None)
    if cell["keepalive"] not in ("while", "regex"):
        yield mk(keepalive="while")
    if cell["keepalive"] == "regex":
        p = dict(cell["params"])
        for key, simple in (("rx_build", "literal"), ("rx_api", "test"), ("rx_mode", "loop"), ("rx_family", "nested_plus")):
            if p.get(key) != simple:
                q = dict(p)
                q[key] = simple
                yield mk(params=q)
    if cell.get("wrap_at") == "inner":
        yield mk(wrap_at="outer")
    if not case["control"] and case["T_work"] > 2000:
        yield mk(T_work=2000)
    if abs(case["world"]["tick"] - 1e-5) > 1e-12:
        w = dict(case["world"])
        w["tick"] = 1e-5
        w["epoch"] = 1000.0
        yield mk(world=w)


def normalise(case):
    """Exact identity of a minimised case: the cell and the fault kinds, not the numbers."""
    cell = case["cell"]
    p = cell.get("params", {})
    keep = {k: p[k] for k in ("rx_family", "rx_api", "rx_build", "rx_mode") if cell["keepalive"] == "regex" and k in p}
    return {"keepalive": cell["keepalive"], "sites": cell["sites"], "wrap": cell["wrap"],
            "wrap_at": cell.get("wrap_at") if cell["wrap"] != "none" else None,
            "prelude": cell.get("prelude", "none"), "params": keep, "control": case["control"],
            "faults": sorted(f["kind"] for f in case.get("faults", [])), "M": bool(case.get("M"))}


def violation_clauses(res):
    return sorted({v["clause"] for v in res.get("violations", []) if v["clause"].startswith("C01.")})


def nontrivial_key(case, res):
    """Distinct non-trivial case = (cell, faults fired, landing site) with >= 1 fault fired in flight."""
    if not res.get("fired"):
        return None
    cell = case["cell"]
    return "|".join([cell["keepalive"], ",".join(cell["sites"]), cell["wrap"], cell.get("prelude", "none"),
                     ",".join(sorted(set(res["fired"]))), res.get("landing", "")])


RULE = ("case i of seed s = i-th element of a seeded shuffle of the product keep-alive (%d) x site (%d) x wrapper (%d), "
        "plus seeded nesting, prelude, T_work (log-uniform), tick, memory limit and clock faults; 15%% are terminating "
        "control twins. A case is non-trivial when at least one fault fired inside the in-flight eval (the deadline "
        "passed, a clock jump fired); distinct = distinct (keep-alive, sites, wrapper, prelude, faults fired, landing "
        "site of the stop on the engine's Python stack)." % (len(KEEPALIVE_NAMES), len(SITE_NAMES), len(WRAP_NAMES)))

ASSUMPTIONS = [
    "work unit = sys.monitoring PY_START/PY_RESUME/backward-JUMP event in /repo/src/microjs code; time inside C builtins does not advance the virtual clock (operands are kept small, as the property's scope says)",
    "overrun bound B = %d work units is a fixed harness constant" % B_OVERRUN,
    "generators use only language features whose terminating twin runs on the pinned tree",
]


def stats(case, res):
    return {
        "outcome": "%s%s" % ("control:" if case["control"] else "", res["outcome"]),
        "faults_fired": list(res.get("fired", [])),
        "landing_sites": res.get("landing") or "-",
        "max_overrun": res.get("overrun", 0),
        "late_probe_runs": 1 if res.get("late_probes") else 0,
        "keepalive": case["cell"]["keepalive"],
        "site": list(case["cell"]["sites"]),
        "wrap": case["cell"]["wrap"],
        "prelude": case["cell"].get("prelude", "none"),
        "precondition_failed": 1 if any(v["clause"] == "precondition" for v in res.get("violations", [])) else 0,
        "memory_limit_set": 1 if case.get("M") else 0,
    }


def sample_view(case):
    return {k: case[k] for k in ("index", "control", "T_work", "M", "faults", "world", "src")}
