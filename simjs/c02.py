"""C02 -- memory limit stops runaway stack growth and never stops bounded scripts.

Part A (this file, stratum "A"): recursion shape x M (the memory budget is a fault that
trips at an arbitrary depth), optionally with a deadline landing during the growth.
Control stratum "scale": bounded scripts under the README's 1 MiB limit.
Part B (stratum "B", see c02b.py): nothing accumulates across iterations.
"""
import json
import tracemalloc

import world as W
from common import substream, loguniform, sha1, OffsetTrack, run_eval, landing

PROPERTY = "C02"
LEVEL = "fault_enumeration"

PROP_C = 1.0        # simulated work to the stop <= PROP_C * M + PROP_C0
PROP_C0 = 60_000
REAL_MEM_FACTOR = 20    # tracemalloc stratum: host bytes allocated <= 20 * M + 1 MiB
REAL_MEM_SLACK = 1 << 20

_CBR = {
    "forEach": "A1.forEach(function(x){ %s })",
    "map": "A1.map(function(x){ return %s })",
    "filter": "A1.filter(function(x){ return %s })",
    "reduce": "A2.reduce(function(a,x){ return %s })",
    "reduceRight": "A2.reduceRight(function(a,x){ return %s })",
    "find": "A1.find(function(x){ return %s })",
    "findIndex": "A1.findIndex(function(x){ return %s })",
    "some": "A1.some(function(x){ return %s })",
    "every": "A1.every(function(x){ return %s })",
    "sort": "A2.slice().sort(function(a,b){ return %s })",
}

# how the recursive call sits in its expression (pending operands)
PENDING = {
    "stmt": "%s;",
    "ret": "return %s;",
    "plus": "return 1 + %s;",
    "array": "return [%s];",
    "arg": "return id(1, %s);",
    "deep": "return 1 + (2 * (3 + (4 - %s)));",
}


def _shapes():
    R = {}
    # direct shapes: fn(pend, guard) -> (decl, start); guard = "" (runaway) or depth test (bounded)
    def self_rec(pend, g):
        return ("function id(a,b){ return b; } function f(n){ %s %s }" % (g, PENDING[pend] % "f(n+1)"), "f(0);")
    R["self"] = self_rec

    def mutual2(pend, g):
        return ("function id(a,b){ return b; } function f(n){ %s %s } function h(n){ return f(n); }" % (
            g, PENDING[pend] % "h(n+1)"), "f(0);")
    R["mutual2"] = mutual2

    def mutual3(pend, g):
        return ("function id(a,b){ return b; } function f(n){ %s %s } function h(n){ return k(n); } function k(n){ return f(n); }" % (
            g, PENDING[pend] % "h(n+1)"), "f(0);")
    R["mutual3"] = mutual3

    def closure(pend, g):
        return ("function id(a,b){ return b; } var f=(function(){ var z=0; return function r(n){ z++; %s %s }; })();" % (
            g, PENDING[pend] % "r(n+1)"), "f(0);")
    R["closure"] = closure

    def arrow(pend, g):
        return ("function id(a,b){ return b; } var f=(n) => { %s %s };" % (g, PENDING[pend] % "f(n+1)"), "f(0);")
    R["arrow"] = arrow

    def method(pend, g):
        return ("function id(a,b){ return b; } var o={m:function(n){ %s %s }};" % (g, PENDING[pend] % "this.m(n+1)"), "o.m(0);")
    R["method"] = method

    def ctor(pend, g):
        return ("function id(a,b){ return b; } function C(n){ %s %s }" % (g, PENDING[pend] % "new C(n+1)"), "new C(0);")
    R["ctor"] = ctor

    for name, tpl in _CBR.items():
        def cb(pend, g, tpl=tpl):
            return ("function id(a,b){ return b; } var d=0; function f(){ var n=d++; %s %s }" % (
                g, PENDING[pend] % (tpl % "f()")), "f();")
        R["cb_" + name] = cb

    def getter(pend, g):
        return ("function id(a,b){ return b; } var d=0; var o={get x(){ var n=d++; %s %s }};" % (g, PENDING[pend] % "o.x"), "o.x;")
    R["getter"] = getter

    def setter(pend, g):
        return ("var d=0; var o={set x(v){ var n=d++; %s o.x=v; }};" % g, "o.x=1;")
    R["setter"] = setter

    def valueof(pend, g):
        return ("function id(a,b){ return b; } var d=0; var o={valueOf:function(){ var n=d++; %s %s }};" % (
            g, PENDING[pend] % "(o*1)"), "o*1;")
    R["valueOf"] = valueof

    def call(pend, g):
        return ("function id(a,b){ return b; } function f(n){ %s %s }" % (g, PENDING[pend] % "f.call(null, n+1)"), "f(0);")
    R["call"] = call

    def apply(pend, g):
        return ("function id(a,b){ return b; } function f(n){ %s %s }" % (g, PENDING[pend] % "f.apply(null, [n+1])"), "f(0);")
    R["apply"] = apply

    def bind(pend, g):
        return ("function id(a,b){ return b; } function f(n){ %s %s }" % (g, PENDING[pend] % "f.bind(null, n+1)()"), "f(0);")
    R["bind"] = bind

    def ev(pend, g):
        return ("function id(a,b){ return b; } var d=0; function f(){ var n=d++; %s %s }" % (g, PENDING[pend] % "eval('f()')"), "f();")
    R["eval"] = ev

    def newfn(pend, g):
        return ("function id(a,b){ return b; } var d=0; var f=new Function(%s);" % json.dumps(
            "var n=d++; %s %s" % (g, PENDING[pend] % "f()")), "f();")
    R["newfn"] = newfn
    return R


SHAPES = _shapes()
SHAPE_NAMES = sorted(SHAPES)
PEND_NAMES = sorted(PENDING)
NATIVE_SHAPES = {s for s in SHAPE_NAMES if s.startswith("cb_")} | {"getter", "setter", "valueOf", "call", "apply", "eval"}

TRY_FORMS = {
    "none": "%s",
    "outer_try": "try{ %s }catch(e){ p('c'); }",
    "outer_try_loop": "while(true){ try{ %s }catch(e){ p('c'); } }",
    "finally": "try{ %s }finally{ p('f'); }",
}
TRY_NAMES = sorted(TRY_FORMS)


def render(cell):
    shape, pend = cell["shape"], cell["pend"]
    g = "if(n >= %d) return 0;" % cell["depth"] if cell["stratum"] == "scale" else ""
    decl, start = SHAPES[shape](pend, g)
    decl = decl.replace("var d=0; ", "")
    start = TRY_FORMS[cell.get("try", "none")] % start
    loop = cell.get("loop", 1) if cell["stratum"] == "scale" else 1
    if loop > 1:
        start = "for(var it=0; it<%d; it++){ d=0; %s }" % (loop, start)
    return "var d=0, A1=[1], A2=[1,2];\n%s\n%s\n\"done\";" % (decl, start)


def n_cases(tier):
    return 3000 if tier == "quick" else 40000


def gen_case(seed, i, tier="quick"):
    rng = substream(seed, "c02", i)
    ns, npd, nt = len(SHAPE_NAMES), len(PEND_NAMES), len(TRY_NAMES)
    total = ns * npd * nt
    j = (i * 7919 + substream(seed, "c02off", 0).randrange(total)) % total
    shape = SHAPE_NAMES[j % ns]
    pend = PEND_NAMES[(j // ns) % npd]
    tr = TRY_NAMES[(j // (ns * npd)) % nt]
    r = rng.random()
    if r < 0.25:
        stratum = "scale"
    else:
        stratum = "A"
    cell = {"stratum": stratum, "shape": shape, "pend": pend, "try": tr}
    case = {"property": PROPERTY, "seed": seed, "index": i, "cell": cell,
            "world": {"tick": 1e-5, "epoch": round(rng.uniform(0, 1e5), 3)}, "T_work": None, "tracemalloc": False}
    if stratum == "scale":
        cell["depth"] = rng.choice((1, 5, 20, 50))
        cell["loop"] = rng.choice((1, 1, 30, 300))
        if cell["try"] == "outer_try_loop":
            cell["try"] = "outer_try"
        case["M"] = 1024 * 1024
    else:
        hi = 2_000_000 if tier == "quick" else 20_000_000
        case["M"] = loguniform(rng, 2000, hi)
        if rng.random() < 0.15:
            # a deadline landing during the growth
            case["T_work"] = loguniform(rng, 300, 60000)
        if rng.random() < (0.03 if tier == "quick" else 0.10):
            case["tracemalloc"] = True
    case["src"] = render(cell)
    return case


def execute(case):
    W.install()
    from microjs import Context
    wd = case["world"]
    W.reset(tick=wd["tick"], epoch=wd["epoch"], seed=case.get("seed", 0))
    S = W.S
    T_work = case.get("T_work")
    T = T_work * S.tick if T_work else None
    M = case["M"]
    ctx = Context(memory_limit=M, time_limit=T)
    probes = []

    def p(*a):
        probes.append((S.work, a[0] if a else None))
        if len(probes) <= 20:
            W.log("host_call", "p", a[0] if a else None)

    ctx.set("p", p)
    cap = int(PROP_C * M + PROP_C0) * 5 if case["cell"]["stratum"] == "A" else 50_000_000
    tm = case.get("tracemalloc")
    peak = None
    if tm:
        S.counting = True
        tracemalloc.start()
        tracemalloc.reset_peak()
        base = tracemalloc.get_traced_memory()[0]
    try:
        out = run_eval(ctx, case["src"], cap)
    finally:
        if tm:
            cur, pk = tracemalloc.get_traced_memory()
            tracemalloc.stop()
            peak = pk - base
    res = {"outcome": out["kind"], "cls": out.get("cls"), "msg": out.get("msg"), "value": out.get("value"),
           "work": out["end_work"] - out["start_work"], "elapsed": out["end_now"] - out["start_now"], "T": T,
           "landing": landing(out.get("sites", [])), "n_probes": len(probes), "real_peak": peak,
           "digest": W.digest()}
    res["violations"] = judge(case, res)
    return res


def judge(case, r):
    v = []
    cell = case["cell"]
    M = case["M"]
    if cell["stratum"] == "scale":
        if r["outcome"] == "limit_mem":
            v.append({"clause": "C02.A.scale", "detail": "bounded script (depth %d) stopped by MemoryLimitError under memory_limit=%d" % (cell["depth"], M)})
        elif not (r["outcome"] == "value" and r["value"] == "done"):
            v.append({"clause": "precondition", "detail": "bounded twin ended in %s %s %s" % (r["outcome"], r["cls"], r["msg"])})
        return v
    ok_time = r["outcome"] == "limit_time" and case.get("T_work") and r["elapsed"] > r["T"]
    if r["outcome"] == "limit_mem" or ok_time:
        pass
    elif r["outcome"] == "cap":
        v.append({"clause": "C02.A.prop", "detail": "not stopped after %d work units with memory_limit=%d (bound %d)" % (
            r["work"], M, PROP_C * M + PROP_C0)})
        if r["n_probes"]:
            v.append({"clause": "C02.A.catch", "detail": "script catch/finally ran %d times" % r["n_probes"]})
        return v
    else:
        v.append({"clause": "C02.A.class", "detail": "runaway recursion under memory_limit=%d ended in %s %s: %s" % (
            M, r["outcome"], r["cls"], r["msg"] if r["outcome"] != "value" else json.dumps(r["value"]))})
    if r["work"] > PROP_C * M + PROP_C0:
        v.append({"clause": "C02.A.prop", "detail": "%d work units to the stop with memory_limit=%d (bound %d)" % (
            r["work"], M, PROP_C * M + PROP_C0)})
    if r["real_peak"] is not None and r["real_peak"] > REAL_MEM_FACTOR * M + REAL_MEM_SLACK:
        v.append({"clause": "C02.A.prop", "detail": "host allocated %d bytes before the stop with memory_limit=%d" % (r["real_peak"], M)})
    if r["n_probes"] and cell["try"] in ("outer_try", "outer_try_loop"):
        v.append({"clause": "C02.A.catch", "detail": "script catch handler ran %d times after the stop" % r["n_probes"]})
    return v


def violation_clauses(res):
    return sorted({v["clause"] for v in res.get("violations", []) if v["clause"].startswith("C02.")})


def features(case, res=None):
    cell = case["cell"]
    f = ["stratum:" + cell["stratum"], "shape:" + cell["shape"]]
    if cell["pend"] != "stmt":
        f.append("pend:" + cell["pend"])
    if cell.get("try", "none") != "none":
        f.append("try:" + cell["try"])
    if case.get("T_work"):
        f.append("fault:deadline")
    if cell["stratum"] == "A":
        f.append("M:large" if case["M"] >= 100_000 else "M:small")
    return sorted(f)


def normalise(case):
    return {"features": features(case)}


def shrink_candidates(case):
    cell = case["cell"]

    def mk(**kw):
        c = json.loads(json.dumps(case))
        for k, val in kw.items():
            if k in ("M", "T_work", "tracemalloc"):
                c[k] = val
            else:
                c["cell"][k] = val
        c["src"] = render(c["cell"])
        return c
    if case.get("T_work"):
        yield mk(T_work=None)
    if case.get("tracemalloc"):
        yield mk(tracemalloc=False)
    if cell.get("try", "none") != "none":
        yield mk(**{"try": "none"})
    if cell["pend"] != "stmt":
        yield mk(pend="stmt")
    if cell["shape"] != "self":
        yield mk(shape="self")
    if cell["stratum"] == "scale":
        if cell.get("loop", 1) > 1:
            yield mk(loop=1)
        if cell["depth"] > 1:
            yield mk(depth=1)
            yield mk(depth=cell["depth"] // 2)
    else:
        for m in (1_000_000, 100_000, 20_000):
            if case["M"] != m:
                yield mk(M=m)


def nontrivial_key(case, res):
    cell = case["cell"]
    if cell["stratum"] == "A" and res["outcome"] not in ("limit_mem", "limit_time"):
        return None
    mb = len(str(case["M"]))
    return "|".join([cell["stratum"], cell["shape"], cell["pend"], cell.get("try", "none"), str(mb), res["outcome"],
                     res.get("landing", "")])


RULE = ("case i = element of the product recursion shape (%d) x pending-operand form (%d) x try form (%d), with memory_limit M "
        "log-uniform 2k..2M (thorough ..20M), 15%% with a deadline landing during the growth, a tracemalloc sub-stratum, and 25%% "
        "bounded 'scale' controls (depth <= 50) under the README's 1 MiB. Non-trivial = the memory (or time) fault actually "
        "fired, or a control completed; distinct = (stratum, shape, pending form, try form, decade of M, outcome, landing site)."
        % (len(SHAPE_NAMES), len(PEND_NAMES), len(TRY_NAMES)))

ASSUMPTIONS = [
    "proportionality constants: work <= 1*M + 60000 units; host bytes <= 20*M + 1MiB (tracemalloc stratum)",
    "host recursion limit is the interpreter default (part of the deployed environment)",
]


def stats(case, res):
    return {"outcome": case["cell"]["stratum"] + ":" + res["outcome"], "landing_sites": res.get("landing") or "-",
            "shape": case["cell"]["shape"], "pend": case["cell"]["pend"], "try": case["cell"].get("try", "none"),
            "faults_fired": (["mem"] if res["outcome"] == "limit_mem" else []) + (["deadline"] if res["outcome"] == "limit_time" else []),
            "max_work": res["work"], "tracemalloc_runs": 1 if case.get("tracemalloc") else 0,
            "precondition_failed": 1 if any(v["clause"] == "precondition" for v in res.get("violations", [])) else 0}


def sample_view(case):
    return {k: case[k] for k in ("index", "M", "T_work", "cell", "src")}
