"""C02 -- memory limit stops runaway stack growth and never stops bounded scripts.

Part A (this file, stratum "A"): recursion shape x M (the memory budget is a fault that
trips at an arbitrary depth), optionally with a deadline landing during the growth.
Control stratum "scale": bounded scripts under the README's 1 MiB limit.
Part B (stratum "B", see c02b.py): nothing accumulates across iterations.
"""
import json
import tracemalloc

import world as W
from common import substream, loguniform, sha1, OffsetTrack, run_eval, landing

PROPERTY = "C02"
CASE_TIMEOUT_S = 400
LEVEL = "fault_enumeration"

PROP_C = 1.0        # simulated work to the stop <= PROP_C * M + PROP_C0
PROP_C0 = 60_000
REAL_MEM_FACTOR = 20    # tracemalloc stratum: host bytes allocated <= 20 * M + 1 MiB
REAL_MEM_SLACK = 1 << 20

_CBR = {
    "forEach": "A1.forEach(function(x){ %s })",
    "map": "A1.map(function(x){ return %s })",
    "filter": "A1.filter(function(x){ return %s })",
    "reduce": "A2.reduce(function(a,x){ return %s })",
    "reduceRight": "A2.reduceRight(function(a,x){ return %s })",
    "find": "A1.find(function(x){ return %s })",
    "findIndex": "A1.findIndex(function(x){ return %s })",
    "some": "A1.some(function(x){ return %s })",
    "every": "A1.every(function(x){ return %s })",
    "sort": "A2.slice().sort(function(a,b){ var q = %s; return 0; })",
}

# how the recursive call sits in its expression (pending operands)
PENDING = {
    "stmt": "%s;",
    "ret": "return %s;",
    "plus": "return 1 + %s;",
    "array": "return [%s];",
    "arg": "return id(1, %s);",
    "deep": "return 1 + (2 * (3 + (4 - %s)));",
}


def _shapes():
    R = {}
    # direct shapes: fn(pend, guard) -> (decl, start); guard = "" (runaway) or depth test (bounded)
    def self_rec(pend, g):
        return ("function id(a,b){ return b; } function f(n){ %s %s }" % (g, PENDING[pend] % "f(n+1)"), "f(0);")
    R["self"] = self_rec

    def mutual2(pend, g):
        return ("function id(a,b){ return b; } function f(n){ %s %s } function h(n){ return f(n); }" % (
            g, PENDING[pend] % "h(n+1)"), "f(0);")
    R["mutual2"] = mutual2

    def mutual3(pend, g):
        return ("function id(a,b){ return b; } function f(n){ %s %s } function h(n){ return k(n); } function k(n){ return f(n); }" % (
            g, PENDING[pend] % "h(n+1)"), "f(0);")
    R["mutual3"] = mutual3

    def closure(pend, g):
        return ("function id(a,b){ return b; } var f=(function(){ var z=0; return function r(n){ z++; %s %s }; })();" % (
            g, PENDING[pend] % "r(n+1)"), "f(0);")
    R["closure"] = closure

    def arrow(pend, g):
        return ("function id(a,b){ return b; } var f=(n) => { %s %s };" % (g, PENDING[pend] % "f(n+1)"), "f(0);")
    R["arrow"] = arrow

    def method(pend, g):
        return ("function id(a,b){ return b; } var o={m:function(n){ %s %s }};" % (g, PENDING[pend] % "this.m(n+1)"), "o.m(0);")
    R["method"] = method

    def ctor(pend, g):
        return ("function id(a,b){ return b; } function C(n){ %s %s }" % (g, PENDING[pend] % "new C(n+1)"), "new C(0);")
    R["ctor"] = ctor

    for name, tpl in _CBR.items():
        def cb(pend, g, tpl=tpl):
            return ("function id(a,b){ return b; } var d=0; function f(){ var n=d++; %s %s }" % (
                g, PENDING[pend] % (tpl % "f()")), "f();")
        R["cb_" + name] = cb

    def getter(pend, g):
        return ("function id(a,b){ return b; } var d=0; var o={get x(){ var n=d++; %s %s }};" % (g, PENDING[pend] % "o.x"), "o.x;")
    R["getter"] = getter

    def setter(pend, g):
        return ("var d=0; var o={set x(v){ var n=d++; %s o.x=v; }};" % g, "o.x=1;")
    R["setter"] = setter

    def valueof(pend, g):
        return ("function id(a,b){ return b; } var d=0; var o={valueOf:function(){ var n=d++; %s %s }};" % (
            g, PENDING[pend] % "(o*1)"), "o*1;")
    R["valueOf"] = valueof

    def call(pend, g):
        return ("function id(a,b){ return b; } function f(n){ %s %s }" % (g, PENDING[pend] % "f.call(null, n+1)"), "f(0);")
    R["call"] = call

    def apply(pend, g):
        return ("function id(a,b){ return b; } function f(n){ %s %s }" % (g, PENDING[pend] % "f.apply(null, [n+1])"), "f(0);")
    R["apply"] = apply

    def bind(pend, g):
        return ("function id(a,b){ return b; } function f(n){ %s %s }" % (g, PENDING[pend] % "f.bind(null, n+1)()"), "f(0);")
    R["bind"] = bind

    def ev(pend, g):
        return ("function id(a,b){ return b; } var d=0; function f(){ var n=d++; %s %s }" % (g, PENDING[pend] % "eval('f()')"), "f();")
    R["eval"] = ev

    def newfn(pend, g):
        return ("function id(a,b){ return b; } var d=0; var f=new Function(%s);" % json.dumps(
            "var n=d++; %s %s" % (g, PENDING[pend] % "f()")), "f();")
    R["newfn"] = newfn
    return R


SHAPES = _shapes()
SHAPE_NAMES = sorted(SHAPES)
PEND_NAMES = sorted(PENDING)
NATIVE_SHAPES = {s for s in SHAPE_NAMES if s.startswith("cb_")} | {"getter", "setter", "valueOf", "call", "apply", "eval"}

TRY_FORMS = {
    "none": "%s",
    "outer_try": "try{ %s }catch(e){ p('c'); }",
    "outer_try_loop": "while(true){ try{ %s }catch(e){ p('c'); } }",
    "finally": "try{ %s }finally{ p('f'); }",
}
TRY_NAMES = sorted(TRY_FORMS)


# what the evaluation did before the growth starts: exceptions caught across frames, unwinding through
# built-ins, abrupt exits -- whatever they leave behind must not blind the limit afterwards
PRE_FORMS = {
    "none": "",
    "caught_throw_fn": "try { (function(){ throw 1; })(); } catch (e0) {}\n",
    "caught_throw_deep": "try { (function a0(n){ if (n) { a0(n - 1); } else { throw new Error('x'); } })(5); } catch (e0) {}\n",
    "caught_throw_cb": "try { [1, 2].forEach(function(){ throw 1; }); } catch (e0) {}\n",
    "caught_typeerror_fn": "try { (function(){ null.x; })(); } catch (e0) {}\n",
    "caught_in_loop": "for (var q0 = 0; q0 < 20; q0++) { try { (function(){ throw q0; })(); } catch (e0) {} }\n",
    "finally_return_fn": "(function(){ for (var k0 in {a: 1}) { try { return 1; } finally { } } })();\n",
    "caught_eval_throw": "try { eval('throw 1'); } catch (e0) {}\n",
}
PRE_NAMES = sorted(PRE_FORMS)

NATIVE_START_SITES = {
    "start_in_forEach": "[1].forEach(function(x){ %s });",
    "start_in_sort": "[2,1].sort(function(a,b){ %s return 0; });",
    "start_in_getter": "({get q(){ %s return 1; }}).q;",
    "start_in_valueOf": "({valueOf:function(){ %s return 1; }}) * 2;",
    "start_in_call": "(function(){ %s }).call(null);",
    "start_in_apply": "(function(){ %s }).apply(null, []);",
}


def render(cell):
    shape, pend = cell["shape"], cell["pend"]
    g = "if(n >= %d) return 0;" % cell["depth"] if cell["stratum"] == "scale" else ""
    # at every level, a built-in with a deep host-stack excursion of its own inside try/catch: when
    # the host stack runs out inside it, the script must not get a catchable error and carry on
    g += {"none": "",
          "regexp": " try { new RegExp('((a|b)*c(d|e(f|g(h)*)+)?)+x'); } catch (e9) { p('c'); return 0; }",
          "json_parse": " try { JSON.parse('[[[[[[[[[[[[1]]]]]]]]]]]]'); } catch (e9) { p('c'); return 0; }",
          "json_stringify": " try { JSON.stringify({a:{b:{c:{d:{e:{f:[1,[2,[3,[4]]]]}}}}}}); } catch (e9) { p('c'); return 0; }",
          "regex_match": " try { 'aaaab'.match('(a|b)+b'); /(x+)+y/.test('xxxxx'); } catch (e9) { p('c'); return 0; }",
          }[cell.get("probe", "none")]
    decl, start = SHAPES[shape](pend, g)
    decl = decl.replace("var d=0; ", "")
    start = TRY_FORMS[cell.get("try", "none")] % start
    loop = cell.get("loop", 1) if cell["stratum"] == "scale" else 1
    if loop > 1:
        start = "for(var it=0; it<%d; it++){ d=0; %s }" % (loop, start)
    site = cell.get("site", "top")
    body = "%s\n%s" % (decl, start)
    if site == "eval":
        # the whole recursion (declarations included) lives in eval code: a nested interpreter
        body = "eval(%s);" % json.dumps(body)
    elif site == "eval2":
        body = "eval(%s);" % json.dumps("eval(%s);" % json.dumps(body))
    elif site == "newfn":
        body = "new Function(%s)();" % json.dumps(body.replace("var d=0", "d=0"))
    elif site == "function":
        body = "(function(){ %s })();" % body
    elif site in NATIVE_START_SITES:
        # the recursion starts inside script code that a built-in is running (the second
        # interpreter loop): declarations stay global, only the start statement moves
        body = "%s\n%s" % (decl, NATIVE_START_SITES[site] % start)
    pre = PRE_FORMS[cell.get("pre", "none")]
    return "var d=0, A1=[1], A2=[1,2];\n%s%s\n\"done\";" % (pre, body)


def n_cases(tier):
    return 3000 if tier == "quick" else 12000


def gen_case(seed, i, tier="quick"):
    rng = substream(seed, "c02", i)
    ns, npd, nt = len(SHAPE_NAMES), len(PEND_NAMES), len(TRY_NAMES)
    total = ns * npd * nt
    j = (i * 7919 + substream(seed, "c02off", 0).randrange(total)) % total
    shape = SHAPE_NAMES[j % ns]
    pend = PEND_NAMES[(j // ns) % npd]
    tr = TRY_NAMES[(j // (ns * npd)) % nt]
    r = rng.random()
    if r < 0.25:
        stratum = "scale"
    else:
        stratum = "A"
    cell = {"stratum": stratum, "shape": shape, "pend": pend, "try": tr,
            "site": rng.choice(("top", "top", "top", "eval", "eval2", "newfn", "function") + tuple(sorted(NATIVE_START_SITES)))}
    cell["probe"] = rng.choice(("none", "none", "none", "regexp", "json_parse", "json_stringify", "regex_match"))
    cell["pre"] = rng.choice(PRE_NAMES) if rng.random() < 0.35 else "none"
    if shape in ("closure", "arrow", "method", "getter", "setter", "valueOf", "newfn") and cell["site"] == "newfn":
        cell["site"] = "eval"     # these shapes declare with var/object literals that need program scope
    if stratum == "scale" and cell["site"] in NATIVE_START_SITES and cell.get("try") == "outer_try_loop":
        cell["try"] = "outer_try"
    if shape in ("eval", "newfn") and cell["site"] in ("function", "newfn"):
        cell["site"] = "eval2"    # their nested code refers to the recursive function as a global
    case = {"property": PROPERTY, "seed": seed, "index": i, "cell": cell,
            "world": {"tick": 1e-5, "epoch": round(rng.uniform(0, 1e5), 3)}, "T_work": None, "tracemalloc": False}
    if stratum == "scale":
        cell["depth"] = rng.choice((1, 5, 20, 50))
        cell["loop"] = rng.choice((1, 1, 30, 300))
        if shape in ("self", "mutual2", "mutual3", "closure", "arrow", "method", "ctor") and cell["site"] in ("top", "function") and rng.random() < 0.4:
            # script-to-script calls do not nest host frames: a deep but bounded recursion fits a large limit
            cell["depth"] = rng.choice((300, 1500))
            cell["loop"] = 1
            case["deep"] = True
        if cell["try"] == "outer_try_loop":
            cell["try"] = "outer_try"
        case["M"] = 50 * 1024 * 1024 if case.get("deep") else 1024 * 1024
    else:
        hi = 2_000_000 if tier == "quick" else 20_000_000
        case["M"] = loguniform(rng, 2000, hi)
        if cell.get("probe", "none") != "none":
            case["M"] = min(case["M"], 200_000)     # a probe costs ~3k work units per level
        if rng.random() < 0.15:
            # a deadline landing during the growth
            case["T_work"] = loguniform(rng, 300, 60000)
        if rng.random() < (0.03 if tier == "quick" else 0.10):
            case["tracemalloc"] = True
    case["src"] = render(cell)
    return case


def execute(case):
    W.install()
    from microjs import Context
    wd = case["world"]
    W.reset(tick=wd["tick"], epoch=wd["epoch"], seed=case.get("seed", 0))
    S = W.S
    T_work = case.get("T_work")
    T = T_work * S.tick if T_work else None
    M = case["M"]
    ctx = Context(memory_limit=M, time_limit=T)
    probes = []

    def p(*a):
        probes.append((S.work, a[0] if a else None))
        if len(probes) <= 20:
            W.log("host_call", "p", a[0] if a else None)

    ctx.set("p", p)
    cap = _prop_bound(case) * 5 if case["cell"]["stratum"] == "A" else 50_000_000
    tm = case.get("tracemalloc")
    peak = None
    if tm:
        S.counting = True
        tracemalloc.start()
        tracemalloc.reset_peak()
        base = tracemalloc.get_traced_memory()[0]
    try:
        out = run_eval(ctx, case["src"], cap)
    finally:
        if tm:
            cur, pk = tracemalloc.get_traced_memory()
            tracemalloc.stop()
            peak = pk - base
    res = {"outcome": out["kind"], "cls": out.get("cls"), "msg": out.get("msg"), "value": out.get("value"),
           "work": out["end_work"] - out["start_work"], "elapsed": out["end_now"] - out["start_now"], "T": T,
           "landing": landing(out.get("sites", [])), "n_probes": len(probes), "real_peak": peak,
           "digest": W.digest(), "bdigest": W.bdigest()}
    res["violations"] = judge(case, res)
    return res


def _prop_bound(case):
    """work <= c*M + c0; a built-in probe at every level multiplies the cost of a level"""
    k = 40 if case["cell"].get("probe", "none") != "none" else 1
    return int(k * (PROP_C * case["M"] + PROP_C0))


def judge(case, r):
    v = []
    cell = case["cell"]
    M = case["M"]
    if cell["stratum"] == "scale":
        if r["outcome"] == "limit_mem":
            v.append({"clause": "C02.A.scale", "detail": "bounded script (depth %d) stopped by MemoryLimitError under memory_limit=%d" % (cell["depth"], M)})
        elif not (r["outcome"] == "value" and r["value"] == "done"):
            v.append({"clause": "precondition", "detail": "bounded twin ended in %s %s %s" % (r["outcome"], r["cls"], r["msg"])})
        return v
    ok_time = r["outcome"] == "limit_time" and case.get("T_work") and r["elapsed"] > r["T"]
    if r["outcome"] == "limit_mem" or ok_time:
        pass
    elif r["outcome"] == "cap":
        v.append({"clause": "C02.A.prop", "detail": "not stopped after %d work units with memory_limit=%d (bound %d)" % (
            r["work"], M, _prop_bound(case))})
        if r["n_probes"]:
            v.append({"clause": "C02.A.catch", "detail": "script catch/finally ran %d times" % r["n_probes"]})
        return v
    else:
        v.append({"clause": "C02.A.class", "detail": "runaway recursion under memory_limit=%d ended in %s %s: %s" % (
            M, r["outcome"], r["cls"], r["msg"] if r["outcome"] != "value" else json.dumps(r["value"]))})
    if r["work"] > _prop_bound(case):
        v.append({"clause": "C02.A.prop", "detail": "%d work units to the stop with memory_limit=%d (bound %d)" % (
            r["work"], M, _prop_bound(case))})
    if r["real_peak"] is not None and r["real_peak"] > REAL_MEM_FACTOR * M + REAL_MEM_SLACK:
        v.append({"clause": "C02.A.prop", "detail": "host allocated %d bytes before the stop with memory_limit=%d" % (r["real_peak"], M)})
    if r["n_probes"] and (cell["try"] in ("outer_try", "outer_try_loop") or cell.get("probe", "none") != "none"):
        v.append({"clause": "C02.A.catch", "detail": "script catch handler ran %d times after the stop" % r["n_probes"]})
    return v


def violation_clauses(res):
    return sorted({v["clause"] for v in res.get("violations", []) if v["clause"].startswith("C02.")})


def features(case, res=None):
    cell = case["cell"]
    f = ["stratum:" + cell["stratum"], "shape:" + cell["shape"]]
    if cell["pend"] != "stmt":
        f.append("pend:" + cell["pend"])
    if cell.get("try", "none") != "none":
        f.append("try:" + cell["try"])
    if cell.get("site", "top") != "top":
        f.append("site:" + cell["site"])
    if cell.get("probe", "none") != "none":
        f.append("probe:" + cell["probe"])
    if cell.get("pre", "none") != "none":
        f.append("pre:" + cell["pre"])
    if case.get("T_work"):
        f.append("fault:deadline")
    if case.get("deep"):
        f.append("deep")
    if cell["stratum"] == "A":
        f.append("M:large" if case["M"] >= 100_000 else "M:small")
    return sorted(f)


def normalise(case):
    return {"features": features(case)}


def shrink_candidates(case):
    cell = case["cell"]

    def mk(**kw):
        c = json.loads(json.dumps(case))
        for k, val in kw.items():
            if k in ("M", "T_work", "tracemalloc"):
                c[k] = val
            else:
                c["cell"][k] = val
        c["src"] = render(c["cell"])
        return c
    if case.get("T_work"):
        yield mk(T_work=None)
    if case.get("tracemalloc"):
        yield mk(tracemalloc=False)
    if cell.get("try", "none") != "none":
        yield mk(**{"try": "none"})
    if cell["pend"] != "stmt":
        yield mk(pend="stmt")
    if cell.get("site", "top") != "top":
        yield mk(site="top")
    if cell.get("probe", "none") != "none":
        yield mk(probe="none")
    if cell.get("pre", "none") != "none":
        yield mk(pre="none")
    if cell["shape"] != "self" and cell.get("site", "top") in ("top", "eval", "eval2"):
        yield mk(shape="self")
    if cell["stratum"] == "scale":
        if cell.get("loop", 1) > 1:
            yield mk(loop=1)
        if cell["depth"] > 1:
            yield mk(depth=1)
            yield mk(depth=cell["depth"] // 2)
    else:
        for m in (1_000_000, 100_000, 20_000):
            if case["M"] != m:
                yield mk(M=m)


def nontrivial_key(case, res):
    cell = case["cell"]
    if cell["stratum"] == "A" and res["outcome"] not in ("limit_mem", "limit_time"):
        return None
    mb = len(str(case["M"]))
    return "|".join([cell["stratum"], cell["shape"], cell["pend"], cell.get("try", "none"), cell.get("site", "top"), str(mb), res["outcome"],
                     res.get("landing", "")])


RULE = ("case i = element of the product recursion shape (%d) x pending-operand form (%d) x try form (%d), with memory_limit M "
        "log-uniform 2k..2M (thorough ..20M), 15%% with a deadline landing during the growth, a tracemalloc sub-stratum, and 25%% "
        "bounded 'scale' controls (depth <= 50) under the README's 1 MiB. Non-trivial = the memory (or time) fault actually "
        "fired, or a control completed; distinct = (stratum, shape, pending form, try form, decade of M, outcome, landing site)."
        % (len(SHAPE_NAMES), len(PEND_NAMES), len(TRY_NAMES)))

ASSUMPTIONS = [
    "proportionality constants: work <= 1*M + 60000 units; host bytes <= 20*M + 1MiB (tracemalloc stratum)",
    "host recursion limit is the interpreter default (part of the deployed environment)",
]


def stats(case, res):
    return {"outcome": case["cell"]["stratum"] + ":" + res["outcome"], "landing_sites": res.get("landing") or "-",
            "shape": case["cell"]["shape"], "pend": case["cell"]["pend"], "try": case["cell"].get("try", "none"),
            "faults_fired": (["mem"] if res["outcome"] == "limit_mem" else []) + (["deadline"] if res["outcome"] == "limit_time" else []),
            "max_work": res["work"], "tracemalloc_runs": 1 if case.get("tracemalloc") else 0,
            "precondition_failed": 1 if any(v["clause"] == "precondition" for v in res.get("violations", [])) else 0}


def sample_view(case):
    return {k: case[k] for k in ("index", "M", "T_work", "cell", "src")}


# =====================================================================================
# Part B -- nothing accumulates: terminating bodies (the C07 statement grammar, with throws
# injected by the fault schedule and caught), repeated N times inside one activation.
# =====================================================================================
import c07 as _c07

B_HEADROOM = 400      # bytes of slack on top of the smallest limit under which one iteration runs
B_GRAN = 50


def _strip_ret(stmts):
    out = []
    for s in stmts:
        t = s["t"]
        if t == "ret":
            continue
        s = dict(s)
        if t == "try":
            s["b"] = _strip_ret(s["b"])
            s["c"] = _strip_ret(s["c"]) if s["c"] is not None else None
            s["f"] = _strip_ret(s["f"]) if s["f"] is not None else None
        elif t in ("loop", "lblock"):
            s["b"] = _strip_ret(s["b"])
        elif t == "switch":
            s["cases"] = [dict(c, b=_strip_ret(c["b"])) for c in s["cases"]]
        out.append(s)
    return out


def render_b(prog, mode):
    parts = [_c07.PRELUDE]
    funcs = prog["funcs"]
    for f in funcs[1:]:
        parts.append("function f%d() {\n%s\n}" % (f["id"], _c07.r_block(f["b"], "  ")))
    if mode in ("call", "once"):
        parts.append("function f0() {\n%s\n}" % _c07.r_block(funcs[0]["b"], "  "))
        body = "      f0();"
    else:
        body = _c07.r_block(_strip_ret(funcs[0]["b"]), "      ")
    if mode == "once":
        # the N iterations happen inside f0 (its outer loop runs NN times): one activation of f0
        parts.append("var BIGA=[]; for (var zb=0; zb<NN; zb++) { BIGA.push(zb); }")
    bound = "1" if mode == "once" else "N"
    parts.append("function run(N) {\n  for (var i0=0; i0<%s; i0++) {\n    mark(i0);\n    try {\n%s\n    } catch (eb) { pc(0, desc(eb)); }\n  }\n}\nrun(NN);\n\"done\";" % (bound, body))
    return "\n".join(parts)


def directed_programs():
    """Hand-picked shapes of the grammar where an abrupt exit meets an abrupt finally block, a
    switch or a for-in/for-of iterator -- rare under uniform generation, rich in residue bugs."""
    P = lambda k: {"t": "p", "k": k}
    D = lambda k, form="throw_str": {"t": "d", "k": k, "form": form}
    def TRY(i, b, c=None, f=None): return {"t": "try", "id": i, "b": b, "c": c, "f": f}
    def LOOP(i, kind, n, b): return {"t": "loop", "id": i, "kind": kind, "n": n, "label": None, "b": b, "nn": i == 1}
    RET = lambda v: {"t": "ret", "v": v}
    BRK = lambda loop: {"t": "break", "loop": loop, "label": None, "cond": None}
    CONT = lambda loop: {"t": "continue", "loop": loop, "label": None, "cond": None}
    def SW(i, v, cases): return {"t": "switch", "id": i, "v": v, "cases": cases}
    out = []
    for kind in ("for", "while", "dowhile", "forin", "forof"):
        out.append(("ret-in-try/continue-in-finally/" + kind, [[LOOP(1, kind, 3, [TRY(2, [RET(21)], None, [CONT(1)])]), P(3)]], []))
        out.append(("ret-in-try/break-in-finally/" + kind, [[LOOP(1, kind, 3, [TRY(2, [P(4), RET(22)], None, [BRK(1)])]), P(3)]], []))
        out.append(("throw-in-try/continue-in-finally/" + kind, [[LOOP(1, kind, 3, [TRY(2, [D(5)], None, [CONT(1)])])]], [0]))
        out.append(("ret-in-catch/continue-in-finally/" + kind, [[LOOP(1, kind, 2, [TRY(2, [D(5)], [RET(23)], [CONT(1)])])]], [0]))
        out.append(("switch/continue-in-try-finally/" + kind,
                    [[LOOP(1, kind, 3, [SW(6, 1, [{"test": 1, "b": [TRY(2, [CONT(1)], None, [P(7)])], "brk": True}, {"test": None, "b": [P(8)], "brk": False}])])]], []))
        out.append(("nested-iter/ret-through-two-finally/" + kind,
                    [[LOOP(1, kind, 2, [TRY(2, [LOOP(3, "forof", 2, [TRY(4, [RET(24)], None, [P(9)])])], None, [CONT(1)])])]], []))
        out.append(("midexpr-throw-in-catch/break-in-finally/" + kind,
                    [[LOOP(1, kind, 3, [TRY(2, [D(5)], [D(6, "null_prop_mid")], [BRK(1)])])]], [0, 1]))
    return out


_DIRECTED = None


def gen_case_b(seed, i, tier):
    global _DIRECTED
    rng = substream(seed, "c02b", i)
    if rng.random() < 0.15:
        if _DIRECTED is None:
            _DIRECTED = directed_programs()
        name, funcs, fs = _DIRECTED[rng.randrange(len(_DIRECTED))]
        prog = {"funcs": [{"id": k, "b": b} for k, b in enumerate(funcs)], "profile": "directed:" + name}
        nbig = 200 if tier == "quick" else rng.choice((200, 1000))
        cell = {"stratum": "B", "mode": "once", "nbig": nbig}
        return {"property": PROPERTY, "seed": seed, "index": i, "cell": cell, "prog": prog, "faults": fs,
                "world": {"tick": 1e-5, "epoch": 1000.0}, "M": None, "T_work": None, "src": render_b(prog, "once")}
    profile = rng.choice(("full", "nonative", "core", "core_native", "full"))
    outer = rng.random() < 0.5
    prog = _c07.gen_program(rng, profile, outer_loop=outer)
    D = _c07.model(prog, [])["decisions"]
    r = rng.random()
    tp = _c07.targeted_pairs(prog, list(range(min(D, 40))), 8) if D else []
    if D == 0 or r < 0.2:
        fs = []
    elif r < 0.6 or (not tp and r < 0.85):
        fs = [rng.randrange(D)]
    elif tp and r < 0.9:
        fs = rng.choice(tp)        # throw in the try block, then throw in its catch/finally
    else:
        j = rng.randrange(D)
        fs = [j, j + rng.randrange(1, 5)]
    mode = "inline" if outer else rng.choice(("call", "inline"))
    nbig = 200 if tier == "quick" else rng.choice((200, 1000, 5000))
    cell = {"stratum": "B", "mode": mode, "nbig": nbig}
    return {"property": PROPERTY, "seed": seed, "index": i, "cell": cell, "prog": prog, "faults": fs,
            "world": {"tick": 1e-5, "epoch": 1000.0}, "M": None, "T_work": None, "src": render_b(prog, mode)}


def _run_b(src, fs, N, M, cap, sample=False, always=False):
    from microjs import Context
    W.reset()
    S = W.S
    ctx = Context(memory_limit=M)
    st = {"n": 0}
    faults = set(fs)
    samples = []
    lost = [False]

    def mark(*a):
        st["n"] = 0
        if sample:
            vm = getattr(ctx, "_current_vm", None)
            tri = []
            for attr in ("stack", "call_stack", "exception_handlers"):
                v = getattr(vm, attr, None) if vm is not None else None
                if v is None:
                    lost[0] = True
                    tri.append(None)
                else:
                    tri.append(len(v))
            samples.append(tri)

    def d(*a):
        j = st["n"]
        st["n"] += 1
        return always or (j in faults)

    nop = lambda *a: None
    for name, fn in (("p", nop), ("pv", nop), ("pc", nop), ("pf", nop), ("d", d), ("mark", mark)):
        ctx.set(name, fn)
    ctx.set("NN", N)
    counting = S.counting
    S.counting = False
    try:
        ctx.eval(_c07.KEPT_SETUP)       # an earlier evaluation: the built-in methods it took off an array outlive it
    except Exception:
        pass                            # (a limit too small even for that: the run below fails likewise)
    finally:
        S.counting = counting
    out = run_eval(ctx, src, cap)
    return out, samples, lost[0]


def execute_b(case):
    W.install()
    src = render_b(case["prog"], case["cell"]["mode"])
    fs = case["faults"]
    v = []
    res = {"outcome": None, "work": 0, "elapsed": 0.0, "landing": "", "n_probes": 0, "real_peak": None}
    # 1. residue, monitored while the run proceeds
    always = case["cell"]["mode"] == "once" and bool(fs)   # directed shapes: every decision throws, in every iteration
    out, samples, lost = _run_b(src, fs, 4, None, 5_000_000, sample=True, always=always)
    work1 = max(1, (out["end_work"] - out["start_work"]) // 4)
    res["outcome"] = out["kind"]
    res["cls"], res["msg"], res["value"] = out.get("cls"), out.get("msg"), out.get("value")
    res["work"] = out["end_work"] - out["start_work"]
    if not (out["kind"] == "value" and out.get("value") == "done"):
        v.append({"clause": "precondition", "detail": "body does not terminate normally without a limit: %s %s %s" % (
            out["kind"], out.get("cls"), out.get("msg"))})
        res.update(violations=v, digest=W.digest(), residue=None, M1=None, probe_lost=lost)
        return res
    res["probe_lost"] = lost
    res["residue"] = samples
    if not lost and len(samples) >= 2:
        for a, b in zip(samples, samples[1:]):
            if a != b:
                v.append({"clause": "C02.B.residue", "detail": "(operands, frames, handlers) at the loop head: %s then %s in the next iteration" % (a, b)})
                break
    # 2. smallest limit under which the first iterations succeed (black box: no attribute names)
    cap1 = work1 * 6 + 200_000
    lo, hi = 0, 1 << 20

    def ok(M, N, cap):
        o, _, _ = _run_b(src, fs, N, M, cap, always=always)
        return o
    NB = 4   # iterations 0..3 cover every iteration-dependent path (conditions test i0 in {0,1,2})
    cap1 = cap1 * NB
    o = ok(hi, NB, cap1)
    if not (o["kind"] == "value"):
        v.append({"clause": "precondition", "detail": "one iteration does not run under 1 MiB: %s" % o["kind"]})
        res.update(violations=v, digest=W.digest(), M1=None)
        return res
    while hi - lo > B_GRAN:
        mid = (lo + hi) // 2
        if mid == 0:
            break
        o = ok(mid, NB, cap1)
        if o["kind"] == "value":
            hi = mid
        else:
            lo = mid
    M1 = hi
    res["M1"] = M1
    # 3. N iterations under the same limit
    # (a body that costs millions of work units per iteration -- nested eval code compiled every
    # time -- gets fewer iterations: the whole run stays under about 40 M units)
    nbig = min(case["cell"]["nbig"], max(200, 40_000_000 // max(1, work1)))
    o = ok(M1 + B_HEADROOM, nbig, work1 * nbig * 3 + 500_000)
    res["big_outcome"] = o["kind"]
    res["work"] += o["end_work"] - o["start_work"]
    if o["kind"] == "limit_mem":
        v.append({"clause": "C02.B.limit", "detail": "four iterations run under memory_limit=%d but %d iterations hit MemoryLimitError under %d" % (
            M1, nbig, M1 + B_HEADROOM)})
    elif o["kind"] != "value":
        v.append({"clause": "precondition", "detail": "%d iterations ended in %s %s %s" % (nbig, o["kind"], o.get("cls"), o.get("msg"))})
    res.update(violations=v, digest=sha1([samples, M1, o["kind"]]))
    return res


# ---- stratum R: a bounded eval after a runaway one, sharing a global array (and its methods)
R_METHODS = {
    "forEach": ("GA.forEach(rq);", "GA.forEach(function(x){ n++; });"),
    "map": ("GA.map(rq);", "GA.map(function(x){ n++; return x; });"),
    "filter": ("GA.filter(rq);", "GA.filter(function(x){ n++; return true; });"),
    "some": ("GA.some(rq);", "GA.some(function(x){ n++; return false; });"),
    "every": ("GA.every(rq);", "GA.every(function(x){ n++; return true; });"),
    "find": ("GA.find(rq);", "GA.find(function(x){ n++; return false; });"),
    "reduce": ("GA.reduce(rq, 0);", "GA.reduce(function(a, x){ n++; return a; }, 0);"),
    "sort": ("GA.sort(rq);", "GA.sort(function(a, b){ n++; return a - b; });"),
}


def gen_case_r(seed, i, tier):
    rng = substream(seed, "c02r", i)
    m = rng.choice(sorted(R_METHODS))
    cell = {"stratum": "R", "method": m, "first_use": rng.choice(("runaway", "bounded_then_runaway")),
            "wrap_try": rng.random() < 0.3}
    run, use = R_METHODS[m]
    if rng.random() < 0.4:
        # the method is taken off the array by the runaway evaluation and kept in a global; the
        # runaway itself is plain recursion (the interpreter that made the method dies with full stacks)
        cell["kept"] = True
        run = "return 1 + rq();"
        use = use.replace("GA.%s(" % m, "KM(")
    first = "GA = [3, 1, 2]; var KM = GA.%s; function rq(){ %s return 0; }\n" % (m, run)
    if cell["first_use"] == "bounded_then_runaway":
        first += "var n = 0; %s\n" % use
    first += ("try { rq(); } catch (e) { p('c'); }" if cell["wrap_try"] else "rq();") + "\n'unreachable';"
    second = "var n = 0; for (var i = 0; i < 30; i++) { %s } [n > 0, 'done'][1];" % use
    return {"property": PROPERTY, "seed": seed, "index": i, "cell": cell, "world": {"tick": 1e-5, "epoch": 1000.0},
            "M": loguniform(rng, 4000, 200_000), "T_work": None, "src": first, "src2": second}


def execute_r(case):
    W.install()
    from microjs import Context
    W.reset(tick=case["world"]["tick"], epoch=case["world"]["epoch"], seed=case.get("seed", 0))
    ctx = Context(memory_limit=case["M"])
    ctx.set("p", lambda *a: None)
    o1 = run_eval(ctx, case["src"], int(PROP_C * case["M"] + PROP_C0) * 5)
    o2 = run_eval(ctx, case["src2"], 3_000_000)
    v = []
    if o1["kind"] != "limit_mem":
        v.append({"clause": "precondition", "detail": "first eval ended in %s %s" % (o1["kind"], o1.get("msg"))})
    elif o2["kind"] == "limit_mem":
        v.append({"clause": "C02.A.scale", "detail": "after a runaway eval was stopped, a bounded eval using the same global array's %s was stopped by MemoryLimitError under memory_limit=%d" % (case["cell"]["method"], case["M"])})
    elif not (o2["kind"] == "value" and o2.get("value") == "done"):
        v.append({"clause": "precondition", "detail": "second eval ended in %s %s %s" % (o2["kind"], o2.get("cls"), o2.get("msg"))})
    return {"outcome": o2["kind"], "first": o1["kind"], "work": (o1["end_work"] - o1["start_work"]) + (o2["end_work"] - o2["start_work"]),
            "elapsed": 0.0, "violations": v, "digest": W.digest(), "bdigest": W.bdigest(), "landing": "", "n_probes": 0, "real_peak": None}


_gen_case_a = gen_case
_execute_a = execute
_features_a = features
_shrink_a = shrink_candidates
_nontrivial_a = nontrivial_key
_stats_a = stats
_sample_view_a = sample_view


def gen_case(seed, i, tier="quick"):
    if i % 10 in (3, 6, 9):      # 30% of the cases are Part B
        return gen_case_b(seed, i, tier)
    if i % 50 == 7:              # 2%: a bounded eval after a runaway one
        return gen_case_r(seed, i, tier)
    return _gen_case_a(seed, i, tier)


def execute(case):
    if case["cell"]["stratum"] == "B":
        return execute_b(case)
    if case["cell"]["stratum"] == "R":
        return execute_r(case)
    return _execute_a(case)


def features(case, res=None):
    if case["cell"]["stratum"] == "R":
        c = case["cell"]
        return sorted(["stratum:R", "method:" + c["method"], "first:" + c["first_use"]] + (["wrap_try"] if c["wrap_try"] else [])
                      + (["kept"] if c.get("kept") else []))
    if case["cell"]["stratum"] == "B":
        c = {"prog": case["prog"], "schedules": [case["faults"]]}
        return sorted(set(["stratum:B", "mode:" + case["cell"]["mode"]] + _c07.features(c)))
    return _features_a(case, res)


def normalise(case):
    if case["cell"]["stratum"] == "R":
        return {"features": features(case)}
    if case["cell"]["stratum"] == "B":
        return {"prog": json.dumps(case["prog"]["funcs"], sort_keys=True), "faults": case["faults"], "mode": case["cell"]["mode"]}
    return {"features": _features_a(case)}


def shrink_candidates(case):
    if case["cell"]["stratum"] == "R":
        return
    if case["cell"]["stratum"] != "B":
        for c in _shrink_a(case):
            yield c
        return
    if case["cell"]["nbig"] > 200:
        c = json.loads(json.dumps(case))
        c["cell"]["nbig"] = 200
        yield c
    if case["cell"]["mode"] == "inline":
        c = json.loads(json.dumps(case))
        c["cell"]["mode"] = "call"
        c["src"] = render_b(c["prog"], "call")
        yield c
    proxy = {"prog": case["prog"], "schedules": [case["faults"]], "src": ""}
    for cand in _c07.shrink_candidates(proxy):
        c = json.loads(json.dumps(case))
        c["prog"] = cand["prog"]
        c["faults"] = cand["schedules"][0]
        c["src"] = render_b(c["prog"], c["cell"]["mode"])
        yield c


def nontrivial_key(case, res):
    if case["cell"]["stratum"] == "R":
        return "R|%s|%s|%s" % (case["cell"]["method"], case["cell"]["first_use"], res.get("first"))
    if case["cell"]["stratum"] == "B":
        if res.get("M1") is None:
            return None
        return "B|" + sha1([case["prog"]["funcs"], case["faults"], case["cell"]["mode"]])[:16]
    return _nontrivial_a(case, res)


def stats(case, res):
    if case["cell"]["stratum"] == "R":
        return {"outcome": "R:%s-then-%s" % (res.get("first"), res.get("outcome")), "faults_fired": ["mem"] if res.get("first") == "limit_mem" else [],
                "precondition_failed": 1 if any(x["clause"] == "precondition" for x in res.get("violations", [])) else 0}
    if case["cell"]["stratum"] == "B":
        return {"outcome": "B:" + str(res.get("big_outcome") or res.get("outcome")), "b_mode": case["cell"]["mode"],
                "b_faults": str(len(case["faults"])), "b_iterations": case["cell"]["nbig"],
                "b_residue_probe_lost": 1 if res.get("probe_lost") else 0,
                "faults_fired": ["throw_caught"] * (1 if case["faults"] else 0) + (["mem_budget_bisected"] if res.get("M1") else []),
                "precondition_failed": 1 if any(x["clause"] == "precondition" for x in res.get("violations", [])) else 0}
    return _stats_a(case, res)


def sample_view(case):
    if case["cell"]["stratum"] == "R":
        return {"index": case["index"], "cell": case["cell"], "M": case["M"], "src": case["src"], "src2": case["src2"]}
    if case["cell"]["stratum"] == "B":
        return {"index": case["index"], "cell": case["cell"], "faults": case["faults"], "src": case["src"]}
    return _sample_view_a(case)


RULE += (" Part B (30%% of the cases): a seeded program of the C07 statement grammar with a seeded throw schedule, its body run N times "
         "in one activation (called or inlined); the (operand, frame, handler) depths at the loop head are sampled while it runs, the "
         "smallest memory_limit under which one iteration succeeds is found by bisection and N iterations must succeed under it "
         "(+%d bytes).  Distinct = distinct (program, schedule, mode)." % B_HEADROOM)
