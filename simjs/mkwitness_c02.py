"""One-off: witness replay files for the C02 findings repaired in /repo."""
import sys, os, json
sys.path.insert(0, os.path.dirname(os.path.abspath(__file__)))
import c02
from common import sha1

def mk(name, clause, cell, M, T_work=None):
    case = {"property": "C02", "seed": 0, "index": -1, "cell": cell, "world": {"tick": 1e-5, "epoch": 1000.0},
            "T_work": T_work, "tracemalloc": False, "M": M}
    case["src"] = c02.render(cell)
    doc = {"property": "C02", "clause": clause, "signature": {"exact": sha1(c02.normalise(case)), "class": c02.features(case)}, "case": case}
    path = os.path.join(os.path.dirname(os.path.dirname(os.path.abspath(__file__))), "findings", name + ".json")
    json.dump(doc, open(path, "w"), indent=1, sort_keys=True)
    print(path)

for shape in ("cb_forEach", "cb_sort", "getter", "setter", "valueOf", "eval"):
    mk("C02-native-recursion-%s" % shape, "C02.A.class", {"stratum": "A", "shape": shape, "pend": "stmt", "try": "none"}, 1024 * 1024)
mk("C02-caught-throw-leaks-operands", "C02.A.scale",
   {"stratum": "scale", "shape": "ctor", "pend": "plus", "try": "outer_try", "depth": 50, "loop": 300}, 1024 * 1024)
