"""One-off: witness replay files for the C02 findings repaired in /repo."""
import sys, os, json
sys.path.insert(0, os.path.dirname(os.path.abspath(__file__)))
import c02
from common import sha1

def mk(name, clause, cell, M, T_work=None):
    case = {"property": "C02", "seed": 0, "index": -1, "cell": cell, "world": {"tick": 1e-5, "epoch": 1000.0},
            "T_work": T_work, "tracemalloc": False, "M": M}
    case["src"] = c02.render(cell)
    doc = {"property": "C02", "clause": clause, "signature": {"exact": sha1(c02.normalise(case)), "class": c02.features(case)}, "case": case}
    path = os.path.join(os.path.dirname(os.path.dirname(os.path.abspath(__file__))), "findings", name + ".json")
    json.dump(doc, open(path, "w"), indent=1, sort_keys=True)
    print(path)

for shape in ("cb_forEach", "cb_sort", "getter", "setter", "valueOf", "eval"):
    mk("C02-native-recursion-%s" % shape, "C02.A.class", {"stratum": "A", "shape": shape, "pend": "stmt", "try": "none"}, 1024 * 1024)
mk("C02-caught-throw-leaks-operands", "C02.A.scale",
   {"stratum": "scale", "shape": "ctor", "pend": "plus", "try": "outer_try", "depth": 50, "loop": 300}, 1024 * 1024)

# Part B witness: throw in try, mid-expression TypeError in catch, finally leaves with continue
import c07
prog = {"funcs": [{"id": 0, "b": [{"t": "loop", "id": 1, "kind": "for", "n": 2, "label": None, "b": [
    {"t": "try", "id": 2, "b": [{"t": "d", "k": 1, "form": "throw_str"}],
     "c": [{"t": "d", "k": 2, "form": "null_prop_mid"}],
     "f": [{"t": "continue", "loop": 1, "label": None, "cond": None}]}]}]}], "profile": "witness"}
assert c07.valid(prog)
case = {"property": "C02", "seed": 0, "index": -1, "cell": {"stratum": "B", "mode": "inline", "nbig": 200}, "prog": prog,
        "faults": [0, 1], "world": {"tick": 1e-5, "epoch": 1000.0}, "M": None, "T_work": None, "src": c02.render_b(prog, "inline")}
doc = {"property": "C02", "clause": "C02.B.residue", "signature": {"exact": sha1(c02.normalise(case)), "class": c02.features(case)}, "case": case}
path = os.path.join(os.path.dirname(os.path.dirname(os.path.abspath(__file__))), "findings", "C02-catch-midexpr-throw-finally-continue-leak.json")
json.dump(doc, open(path, "w"), indent=1, sort_keys=True)
print(path)

mk("C02-recursionerror-swallowed-by-regexp-compile", "C02.A.class",
   {"stratum": "A", "shape": "cb_forEach", "pend": "stmt", "try": "none", "site": "top", "probe": "regexp"}, 100000)

# stratum R witness: a method kept from the evaluation that was stopped, used by a bounded one
cell = {"stratum": "R", "method": "forEach", "first_use": "runaway", "wrap_try": False, "kept": True}
first = "GA = [3, 1, 2]; var KM = GA.forEach; function rq(){ return 1 + rq(); return 0; }\nrq();\n'unreachable';"
second = "var n = 0; for (var i = 0; i < 30; i++) { KM(function(x){ n++; }); } [n > 0, 'done'][1];"
case = {"property": "C02", "seed": 0, "index": -1, "cell": cell, "world": {"tick": 1e-5, "epoch": 1000.0}, "M": 50000, "T_work": None,
        "src": first, "src2": second}
doc = {"property": "C02", "clause": "C02.A.scale", "signature": {"exact": sha1(c02.normalise(case)), "class": c02.features(case)}, "case": case}
path = os.path.join(os.path.dirname(os.path.dirname(os.path.abspath(__file__))), "findings", "C02-kept-method-of-stopped-eval-fails-forever.json")
json.dump(doc, open(path, "w"), indent=1, sort_keys=True)
print(path)
