import sys; sys.path.insert(0,'/verif/simjs')
import c01, world as W
W.install()
bad={}
n=0
for ka in c01.KEEPALIVE_NAMES:
    for site in c01.SITE_NAMES:
        for wrap in ('none','retry_loop'):
            params={'rx_family':'nested_plus','rx_api':'test','rx_build':'literal'}
            cell={'keepalive':ka,'sites':[site],'wrap':wrap,'wrap_at':'outer','prelude':'none','params':params}
            if c01.excluded(cell, True): continue
            case={'property':'C01','seed':0,'index':0,'control':True,'cell':cell,'world':{'tick':1e-5,'epoch':1000.0},'T_work':40_000_000,'M':None,'faults':[]}
            case['src']=c01.render(cell,ctl=True)
            r=c01.execute(case); n+=1
            if r['violations']:
                bad.setdefault((ka,site),[]).append((wrap,r['violations'][0]['detail'][:150]))
print(n,'cells', len(bad),'bad')
for k,v in sorted(bad.items()): print(k,v[0])
