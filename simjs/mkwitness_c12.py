"""One-off: witness history for the C12 finding repaired in /repo (509415d)."""
import sys, os, json
sys.path.insert(0, os.path.dirname(os.path.abspath(__file__)))
import c12
from common import sha1
case = {"property": "C12", "seed": 0, "index": -1, "ctxs": [{"T_work": 60000, "M": None}],
        "world": {"tick": 1e-5, "epoch": 1000.0},
        "ops": [{"op": "eval", "ctx": 0, "effects": [{"e": "rxdef", "v": 1}], "terminal": "loop_while", "busy": []},
                {"op": "regex_reuse", "ctx": 0, "stall": 3.0}]}
doc = {"property": "C12", "clause": "C12.leak", "signature": {"exact": sha1(c12.normalise(case)), "class": c12.features(case)}, "case": case}
path = os.path.join(os.path.dirname(os.path.dirname(os.path.abspath(__file__))), "findings", "C12-regexp-carries-earlier-eval-deadline.json")
json.dump(doc, open(path, "w"), indent=1, sort_keys=True)
print(path)
