"""Shared helpers: seeded sub-streams, eval under the simulated world, greedy minimiser."""
import hashlib
import sys
import json
import math
import random

import world as W

B_OVERRUN = 400_000  # fixed bound on engine work after the virtual deadline (DESIGN 4/C01)


def substream(seed, purpose, index=0):
    h = hashlib.sha256(("%s|%s|%s" % (seed, purpose, index)).encode()).digest()
    return random.Random(int.from_bytes(h[:8], "big"))


def loguniform(rng, lo, hi):
    return int(round(math.exp(rng.uniform(math.log(lo), math.log(hi)))))


def sha1(obj):
    return hashlib.sha1(json.dumps(obj, sort_keys=True, default=repr).encode()).hexdigest()


class OffsetTrack:
    """Records changes of the monotonic offset so that the work count at which the
    virtual clock crossed a deadline can be reconstructed after the run."""

    def __init__(self):
        self.changes = []  # (work_at, mono_off_after)

    def note(self):
        self.changes.append((W.S.work, W.S.mono_off))

    def cross_work(self, start_work, end_work, off0, deadline):
        off = off0
        prev = start_work
        for w_i, off_i in self.changes + [(end_work + 1, None)]:
            need = (deadline - W.S.epoch - off) / W.S.tick
            if need < w_i:
                return max(prev, int(math.ceil(need)))
            off = off_i
            prev = w_i
        return None


def jump_mono(track, delta, why):
    W.S.mono_off += delta
    track.note()
    W.log("fault_fired", why, round(delta, 6))


HOST_STACK_HEADROOM = 950  # Python frames available to the engine: default limit 1000 minus a shallow embedder


def pin_host_stack():
    """The engine gets the same number of host stack frames whatever the depth of the harness
    (pool worker, replay, self-test), so that host-stack exhaustion is reproducible."""
    f = sys._getframe()
    n = 0
    while f is not None:
        n += 1
        f = f.f_back
    sys.setrecursionlimit(n + HOST_STACK_HEADROOM)


class RealTimeGuard(W.WorkCap):
    """Raised by SIGALRM when one eval takes absurdly long in *real* time although simulated work
    hardly advances (a native operation on a gigantic operand: repr of a huge object graph, ...).
    Counts as 'did not return' exactly like the work cap; the bound is far above any legitimate
    run (40 s + 5 s per million cap units; a legitimate eval does well over 300 k units per second even
    on a loaded host).  A run ended by this guard is marked `realtime`: the driver reports it as a
    violation only if it reproduces, and as a note about a slow host otherwise."""


_guard_depth = [0]
REALTIME_HITS = [0]     # evals of this process ended by the real-time guard


def _alarm(signum, frame):
    W.S.cap = W.S.work           # everything after this point is over the cap too
    W.S.next_at = W.S.work
    raise RealTimeGuard(W.S.work)


def run_eval(ctx, src, cap_extra, track=None):
    """Evaluate src on ctx under a work cap. Returns a dict describing the outcome."""
    S = W.S
    pin_host_stack()
    import signal
    import threading
    armed = False
    if _guard_depth[0] == 0 and threading.current_thread() is threading.main_thread():
        signal.signal(signal.SIGALRM, _alarm)
        signal.setitimer(signal.ITIMER_REAL, 40.0 + cap_extra / 200_000.0)
        armed = True
    _guard_depth[0] += 1
    try:
        return _run_eval(ctx, src, cap_extra, track)
    finally:
        _guard_depth[0] -= 1
        if armed:
            signal.setitimer(signal.ITIMER_REAL, 0)


def _run_eval(ctx, src, cap_extra, track=None):
    S = W.S
    start_work = S.work
    start_now = W.now()
    prev_cap = S.cap                       # evals nest (re-entrant host callables, twins run at
    W.set_cap(min(prev_cap, start_work + cap_extra))   # ack time): an inner eval never lifts the outer cap
    reads0 = S.clock_reads
    W.log("op_invoke", "eval", sha1(src)[:12])
    out = {}
    try:
        try:
            v = ctx.eval(src)
            out["kind"] = "value"
            out["value"] = W.canon(v)
        except BaseException as e:  # noqa
            kind, cls, msg = W.classify_exception(e)
            if isinstance(e, RealTimeGuard):
                out["realtime"] = True
                REALTIME_HITS[0] += 1
            out["kind"] = kind
            out["cls"] = cls
            out["msg"] = msg
            sites = W.py_stack_sites(e.__traceback__)
            if e.__context__ is not None:
                # e.g. RegexTimeoutError translated to TimeLimitError: the regex frames
                # are on the context's traceback
                sites = sites + W.py_stack_sites(e.__context__.__traceback__)
            out["sites"] = sites
            if not isinstance(e, (Exception, W.WorkCap)):
                raise
    finally:
        W.set_cap(prev_cap)
    out["start_work"] = start_work
    out["end_work"] = S.work
    out["start_now"] = start_now
    out["end_now"] = W.now()
    out["clock_reads"] = S.clock_reads - reads0
    W.log("op_return", out["kind"], out.get("cls"), out.get("value") if out["kind"] == "value" else out.get("msg"))
    return out


def landing(sites):
    """Compress a list of engine function names into a landing-site label."""
    interesting = ("_call_callback", "eval_fn", "function_constructor_fn", "_execute_lookahead",
                   "_try_lookbehind_at", "search", "match", "test_fn", "exec_fn", "replace", "replaceAll",
                   "split", "regexp_constructor_fn", "_invoke_getter", "_invoke_setter", "_to_primitive",
                   "sort_fn", "compare_fn", "call_fn", "apply_fn", "bound", "_execute", "check_timeout",
                   "_check_limits", "parse", "compile")
    out = []
    for s in sites:
        if s in interesting and (not out or out[-1] != s):
            out.append(s)
    return ">".join(out[-6:])


def minimise(case, still_fails, candidates, budget=200):
    """Greedy structural minimisation: apply the first candidate that still fails, repeat."""
    improved = True
    tried = set()
    while improved and budget > 0:
        improved = False
        for cand in candidates(case):
            key = sha1(cand)
            if key in tried:
                continue
            tried.add(key)
            budget -= 1
            if budget < 0:
                break
            if still_fails(cand):
                case = cand
                improved = True
                break
    return case
