"""C15 -- evaluation is deterministic and independent of host hash randomisation.

The same case is evaluated under many *configurations and schedules*: PYTHONHASHSEED values
(each a fresh interpreter evaluating the whole batch), seeded permutations of the batch order,
seeded neighbour activity (other contexts evaluating other programs before and in between), and
clock variants (epoch, tick, monotonic and wall-clock jumps during the eval, with no or a
generous time limit).  Oracle: the digest of (result, ordered log, error class and message) of a
case is identical across all variants.
"""
import glob
import hashlib
import io
import json
import os
import subprocess
import sys
import time

import world as W
from common import substream, sha1, run_eval, OffsetTrack, jump_mono

PROPERTY = "C15"
LEVEL = "exploration"
HASHSEED_INDEPENDENT = False   # the generic digest spot-check does not apply; this check is that test

HERE = os.path.dirname(os.path.abspath(__file__))
VERIF = os.path.dirname(HERE)
REPO = os.path.dirname(W.REPO_SRC)


# ------------------------------------------------------------------ program generator
STRING_PATTERNS = ("(a|b)*c", "(ab|ba)+c", "[ab]+c$")


class G15:
    def __init__(self, rng):
        self.rng = rng
        self.n = 0
        self.tags = 0
        self.known = []      # every function name generated so far, in or out of scope

    def fresh(self, p="v"):
        self.n += 1
        # long, varied names: their hashes decide set iteration order in the compiler
        return "%s%s%d" % (p, self.rng.choice(("alpha", "be", "gam", "delta_x", "eps", "zz", "k", "omega9", "mu", "nu_")), self.n)

    def tag(self):
        self.tags += 1
        return self.tags

    def expr(self, vis, depth=0):
        rng = self.rng
        if not vis or rng.random() < 0.25 or depth > 2:
            return str(rng.randrange(1, 50)) if not vis or rng.random() < 0.5 else rng.choice(vis)
        a = self.expr(vis, depth + 1)
        b = self.expr(vis, depth + 1)
        op = rng.choice(("+", "*", "-", "+"))
        return "((%s %s %s) %% 9973)" % (a, op, b)

    def fn(self, depth, visible, kind="decl", selfref=False):
        rng = self.rng
        name = self.fresh("f")
        self.known.append(name)
        params = [self.fresh("p") for _ in range(rng.randrange(0, 4))]
        locs = [self.fresh("l") for _ in range(rng.randrange(1, 5))]
        lines = []
        vis = visible + params
        for v in locs:
            lines.append("var %s = %s;" % (v, self.expr(vis)))
            vis = vis + [v]
        late = [self.fresh("h") for _ in range(rng.randrange(0, 4))] if rng.random() < 0.5 else []
        if late:
            # hoisted names looked at before their var statements run (directly and from a closure):
            # whatever the call put into their slots -- which slot is a set-order matter -- shows here
            lines.append("log(%d, [%s].join(','));" % (self.tag(), ", ".join("typeof %s" % h for h in late)))
            lines.append("log(%d, (function(){ return [%s].join(','); })());" % (self.tag(), ", ".join("String(%s)" % h for h in late)))
        for _ in range(rng.randrange(2, 6)):
            lines.append(self.stmt(depth, vis, params))
        if kind == "arrow" and depth < 3 and rng.random() < 0.6:
            # a declaration nested in an arrow body, looked at before it runs, that refers to itself
            src, nm, np = self.fn(depth + 1, vis, "decl", selfref=True)
            lines.append("log(%d, typeof %s);\n%s\nlog(%d, %s(%s));" % (self.tag(), nm, src, self.tag(), nm, self.args(np, vis)))
        for h in late:
            lines.append("var %s = %s;" % (h, self.expr(vis)))
        if kind == "decl" and (selfref or rng.random() < 0.25):
            # the function declares a var with its own name and looks at it before the assignment,
            # directly and through an inner closure
            lines.insert(rng.randrange(len(locs), len(lines) + 1),
                         "log(%d, typeof %s); log(%d, (function(){ return typeof %s; })()); var %s = %s; log(%d, typeof %s);"
                         % (self.tag(), name, self.tag(), name, name, self.expr(vis), self.tag(), name))
        lines.append("return %s;" % self.expr(vis))
        body = "\n".join("  " + l for l in lines)
        if kind == "decl":
            return "function %s(%s) {\n%s\n}" % (name, ", ".join(params), body), name, len(params)
        if kind == "expr":
            return "var %s = function %s_n(%s) {\n%s\n};" % (name, name, ", ".join(params), body), name, len(params)
        if kind == "arrow":
            # block-bodied arrow function: its nested declarations, closures and early reads go
            # through the same machinery as in ordinary functions (no `arguments` of its own)
            body = body.replace("arguments.length ? arguments[0] : 0", "0").replace("arguments.length", "0")
            return "var %s = (%s) => {\n%s\n};" % (name, ", ".join(params), body), name, len(params)
        raise AssertionError(kind)

    def args(self, n, vis):
        # sometimes more arguments than the function declares
        n += self.rng.choice((0, 0, 0, 1, 2, 4))
        return ", ".join(self.expr(vis) for _ in range(n))

    def stmt(self, depth, vis, params):
        rng = self.rng
        r = rng.random()
        t = self.tag()
        if r < 0.18:
            return "log(%d, %s);" % (t, self.expr(vis))
        if r < 0.32 and vis:
            v = rng.choice(vis)
            return "%s = %s; log(%d, %s);" % (v, self.expr(vis), t, v)
        if r < 0.50 and depth < 3:
            look = rng.random() < 0.4
            src, name, np = self.fn(depth + 1, vis, rng.choice(("decl", "expr", "arrow", "decl")), selfref=look)
            early = "log(%d, typeof %s);\n" % (self.tag(), name) if look else ""
            return "%s%s\nlog(%d, %s(%s));" % (early, src, t, name, self.args(np, vis))
        if r < 0.60:
            i = self.fresh("i")
            fs = self.fresh("fs")
            a = self.expr(vis)
            return ("var %s = []; for (var %s = 0; %s < 3; %s++) { %s.push(function(){ return %s + %s; }); }\n"
                    "log(%d, %s[0]() + %s[2]());" % (fs, i, i, i, fs, i, a, t, fs, fs))
        if r < 0.70:
            x = self.fresh("x")
            if rng.random() < 0.5:
                # a callback that names fewer parameters than it is given and reads hoisted vars early
                h1, h2 = self.fresh("h"), self.fresh("h")
                return ("log(%d, [1, 2, 3].map(function(%s){ var r_ = typeof %s + typeof %s; var %s = %s, %s = 2; return r_ + (%s * %s) %% 9973; }).join(','));"
                        % (t, x, h1, h2, h1, x, h2, x, self.expr(vis)))
            return "log(%d, [1, 2, 3].map(function(%s){ return (%s * %s) %% 9973; }).join(','));" % (t, x, x, self.expr(vis))
        if r < 0.78:
            fname = self.fresh("fact")
            return ("var %s = function %s_r(n){ return n <= 1 ? %s : (n * %s_r(n - 1)) %% 9973; };\nlog(%d, %s(%d));"
                    % (fname, fname, self.expr(vis), fname, t, fname, rng.randrange(2, 7)))
        if r < 0.82:
            a = self.fresh("ar")
            x = self.fresh("x")
            return "var %s = (%s) => (%s + %s) %% 9973; log(%d, %s(%s));" % (a, x, x, self.expr(vis), t, a, self.expr(vis))
        if r < 0.84:
            return "log(%d, arguments.length + (arguments.length ? arguments[0] : 0));" % t
        if r < 0.86:
            # a pattern given as a string (compiled per call) on a subject long enough to be polled
            pat = rng.choice(STRING_PATTERNS)
            return "log(%d, '%s'.search('%s') + '|' + ('%s'.match('%s') || ['none'])[0].length);" % (
                t, "ab" * 80 + "c", pat, "ba" * 70 + "c", pat)
        if r < 0.88:
            # enumeration order of an object with data properties and several accessor names
            o = self.fresh("ob")
            names = [self.fresh("k") for _ in range(rng.randrange(2, 5))]
            props = ["%s: %s" % (self.fresh("d"), self.expr(vis))]
            for nm in names:
                props.append(rng.choice(("get %s(){ return 1; }", "set %s(v){ }")) % nm)
            props.append("%s: 2" % self.fresh("d"))
            return ("var %s = {%s}; var %s_k = []; for (var %s_q in %s) { %s_k.push(%s_q); } log(%d, %s_k.join(',')); "
                    "log(%d, Object.keys(%s).join(','));" % (o, ", ".join(props), o, o, o, o, o, t, o, t, o))
        if r < 0.90:
            # values rendered by the engine itself (object/function/array stringification, typeof)
            return "log(%d, String({q: %s}) + '|' + typeof function(){} + '|' + [1, [2, 3]].length + '|' + String(function zzf(){}).length);" % (t, self.expr(vis))
        if r < 0.94:
            # built-in objects are per context: what one program stores on them, or finds there, must
            # not depend on what other contexts of the process did (small shared pool of slot names)
            slot = rng.choice(("Math.zq%d", "JSON.zq%d", "String.zq%d", "Object.prototype.zq%d", "Error.prototype.zq%d",
                               "Array.zq%d", "Number.zq%d", "RegExp.zq%d", "Date.zq%d", "console.zq%d", "Function.prototype.zq%d",
                               "Boolean.zq%d", "Int32Array.zq%d", "TypeError.prototype.zq%d", "ArrayBuffer.zq%d")) % rng.randrange(3)
            if rng.random() < 0.5:
                return "log(%d, typeof %s);" % (t, slot)
            return "log(%d, typeof %s); %s = %s; log(%d, %s);" % (t, slot, slot, self.expr(vis), t, slot)
        if rng.random() < 0.12:
            # operators whose answer depends on more than the numeric value of the operands (sign of
            # zero, exact integer or double): the same operands must give the same answer whatever
            # other programs computed before
            b = rng.choice((3, 5, 7, 11))
            base = rng.choice(("%d", "(%d / 2)", "(%d.5 - 0.5)")) % (b if rng.random() < 0.5 else 2 * b)
            if "/ 2" in base:
                base = "(%d / 2)" % (2 * b)
            e = rng.choice((19, 20, 21, 23))
            z = rng.choice(("0", "-0", "(0 * -1)", "(1 - 1)"))
            return ("log(%d, String((%s ** %d) %% 9973) + '|' + String(1 / (%s ** 3)) + '|' + String(%s * %d %% 7) + '|' + String(1 / (%s * 5)));"
                    % (t, base, e, z, base, e, z))
        if rng.random() < 0.10:
            # functions compiled while the program runs (Function constructor, eval), of several shapes,
            # made and dropped many times: whatever the engine remembers about a compiled function must
            # not outlive it
            shapes = []
            for _ in range(rng.randrange(2, 4)):
                ps = ["q%d" % k for k in range(rng.randrange(1, 4))]
                cap = [x for x in ps if rng.random() < 0.7] or ps[:1]
                loc = "var w_ = %d; " % rng.randrange(1, 9) if rng.random() < 0.5 else ""
                body = "%sreturn function(){ return (%s%s) %% 9973; };" % (loc, " + ".join("%s * %d" % (x, rng.randrange(1, 5)) for x in cap), " + w_" if loc else "")
                if rng.random() < 0.6:
                    mk = "new Function(%s)" % ", ".join([json.dumps(x) for x in ps] + [json.dumps(body)])
                else:
                    mk = "eval(%s)" % json.dumps("(function(%s){ %s })" % (", ".join(ps), body))
                shapes.append((mk, len(ps)))
            acc = self.fresh("acc")
            i = self.fresh("i")
            calls = " ".join("%s = (%s + (%s)(%s)()) %% 9973;" % (acc, acc, mk, ", ".join("%s + %d" % (i, k) for k in range(n))) for mk, n in shapes)
            return "var %s = 0; for (var %s = 0; %s < %d; %s++) { %s } log(%d, %s);" % (acc, i, i, rng.choice((40, 80, 150)), i, calls, t, acc)
        if self.known and rng.random() < 0.3:
            # a closure looks at some function name (declared later here, in an enclosing function,
            # or not in scope at all: typeof is safe either way)
            nm = rng.choice(self.known)
            return "log(%d, (function(){ return typeof %s; })() + '|' + typeof %s);" % (t, nm, nm)
        if vis and rng.random() < 0.5:
            # the catch parameter reuses the name of an enclosing local/parameter/global, and a
            # closure made inside the catch block captures it together with other variables
            e = rng.choice(vis)
            fn = self.fresh("cf")
            return ("try { throw %s; } catch (%s) { var %s = function(){ return (%s + %s) %% 9973; }; log(%d, %s()); "
                    "[1, 2].forEach(function(q){ log(%d, (q + %s + %s) %% 9973); }); }"
                    % (self.expr(vis), e, fn, e, self.expr(vis), t, fn, t, e, self.expr(vis)))
        e = self.fresh("e")
        return "try { throw %s; } catch (%s) { log(%d, (%s + %s) %% 9973); }" % (self.expr(vis), e, t, e, self.expr(vis))

    def program(self):
        rng = self.rng
        gl = [self.fresh("g") for _ in range(rng.randrange(1, 4))]
        lines = ["var %s = %d;" % (g, rng.randrange(1, 100)) for g in gl]
        calls = []
        for _ in range(rng.randrange(1, 4)):
            src, name, np = self.fn(0, gl, rng.choice(("decl", "expr", "arrow")))
            lines.append(src)
            calls.append("log(%d, %s(%s));" % (self.tag(), name, self.args(np, gl)))
        lines += calls
        lines.append("[%s].join('|');" % ", ".join(gl))
        return "\n".join(lines)


def corpus():
    out = []
    for sub in ("basic", "compat"):
        for f in sorted(glob.glob(os.path.join(REPO, "tests", sub, "*.js"))):
            if os.path.basename(f) == "mandelbrot.js":
                continue  # console output only, slow; covered by the suite
            src = open(f, encoding="utf-8").read()
            if "Date.now" in src or "Math.random" in src or "new Date" in src:
                continue  # the explicit sources of nondeterminism are outside the property
            out.append(("corpus:" + sub + "/" + os.path.basename(f), src))
    return out


# evaluations that FAIL (at compile time inside nested functions, at run time, by a limit): they are
# cases themselves (their error must be the same under every variant) and, above all, they are what
# "other contexts evaluated earlier in the same process" looks like in real use
FAILING = [
    ("fail:break-in-inner-fn", "var kk1 = 5; function oo1(aa1, bb1){ var cc1 = 1; function ii1(dd1){ break; } return cc1; } oo1(1,2);"),
    ("fail:continue-in-nested-arrow", "function oo2(aa2){ var ll2 = [1,2]; return ll2.map((xx2) => { function deep2(){ continue; } return xx2; }); } oo2(1);"),
    ("fail:forof-member-target", "function oo3(aa3, bb3){ var cc3 = {}; function ii3(xs3){ for (cc3.p of xs3) {} } ii3([1]); } oo3(1,2);"),
    ("fail:syntax-in-inner-fn", "function oo4(aa4){ function ii4(bb4){ var = ; } } 1;"),
    ("fail:throw-in-closure", "function oo5(aa5){ var cc5 = aa5 * 2; return function(){ throw new Error('boom' + cc5); }; } oo5(21)();"),
    ("fail:typeerror-in-callback", "function oo6(aa6){ return [1,2].map(function(xx6){ return aa6.nope.deeper; }); } oo6({});"),
    ("fail:reference-in-getter", "var gg7 = {get pp7(){ return notDefined7 + 1; }}; gg7.pp7;"),
    ("fail:deep-recursion", "function rr8(nn8){ return 1 + rr8(nn8 + 1); } rr8(0);", {"memory_limit": 20000}),
    ("fail:loop-forever", "var ww9 = 0; while(true){ ww9++; }", {"time_limit_work": 20000}),
    ("fail:regex-syntax", "var rr10 = new RegExp('(');"),
    ("fail:timeout-after-string-patterns",
     "var ss11 = '" + "ab" * 80 + "c'; var nn11 = ss11.search('(a|b)*c') + ss11.search('(ab|ba)+c') + ss11.search('[ab]+c$'); while(true){ nn11++; }",
     {"time_limit_work": 60000}),
]


def poison_twins(src):
    """Evaluations that fail while compiling a function nested in a function whose parameters and
    locals are named like the top-level names of `src`: whatever such a failure leaves behind in the
    process meets exactly the names the next program uses."""
    import re
    names = re.findall(r"^(?:var|function)\s+([A-Za-z_$][\w$]*)", src, flags=re.M)[:8]
    if not names:
        return []
    params = ", ".join(names[:4])
    locs = " ".join("var %s = 1;" % n for n in names[4:])
    return [
        "function zz_outer(%s){ %s function zz_inner(){ break; } return 1; } zz_outer();" % (params, locs),
        "function zz_outer2(%s){ %s var zz_f = function(){ return function(){ continue; }; }; } 1;" % (params, locs),
        "function zz_outer3(%s){ %s function zz_i3(xs){ for (zz_o.p of xs) {} } } 1;" % (params, locs),
        "function zz_outer4(%s){ %s return (function(){ throw new Error('poison'); })(); } zz_outer4();" % (params, locs),
    ]


def n_generated(tier):
    return 160 if tier == "quick" else 800


def cases(seed, tier):
    cs = []
    for i in range(n_generated(tier)):
        rng = substream(seed, "c15prog", i)
        cs.append(("gen:%d" % i, G15(rng).program()))
    return cs + corpus() + [(f[0], f[1]) for f in FAILING]


_FAIL_CFG = {f[0]: f[2] for f in FAILING if len(f) > 2}


def variants(seed, tier):
    n = 16 if tier == "quick" else 64
    vs = []
    rng = substream(seed, "c15variants", 0)
    hs = [0, 1, 2, 3] + [rng.randrange(4, 2 ** 32 - 1) for _ in range(n - 4)]
    for j in range(n):
        vs.append({"j": j, "hashseed": hs[j], "order_seed": rng.randrange(1 << 30),
                   "neighbours": j % 2 == 1,
                   "tick": 10 ** rng.uniform(-7, -4), "epoch": round(rng.uniform(0, 1e7), 3),
                   "wall_epoch": rng.choice((0.0, 1.7e9, 4e9)),
                   "time_limit": rng.choice((None, None, 3600.0)),
                   "clock_faults": j % 3 == 2})
    return vs


# ------------------------------------------------------------------ worker (fresh interpreter, hash seed from the environment)
_CURSOR = {}


def eval_case(src, variant, rng, cid=None):
    from microjs import Context
    # virtual time never goes back within one process: each eval starts after the previous one ended
    cur = _CURSOR.get(variant["j"], variant["epoch"])
    W.reset(tick=variant["tick"], epoch=cur, wall_epoch=variant["wall_epoch"])
    track = OffsetTrack()
    if variant["clock_faults"]:
        W.schedule(rng.randrange(50, 3000), lambda: jump_mono(track, rng.choice((0.5, 30.0, 1000.0)), "mono_jump"))

        def wj():
            W.S.wall_off += rng.choice((-1e6, -3.0, 7200.0))
        W.schedule(rng.randrange(50, 3000), wj)
    cfg = _FAIL_CFG.get(cid, {})
    tl = variant["time_limit"]
    if "time_limit_work" in cfg:
        tl = cfg["time_limit_work"] * variant["tick"]     # the same position in the execution under every tick
    ctx = Context(time_limit=tl, memory_limit=cfg.get("memory_limit"))
    log = []
    ctx.set("log", lambda *a: log.append([W.canon(x) for x in a]))
    old = sys.stdout
    sys.stdout = buf = io.StringIO()
    try:
        out = run_eval(ctx, src, 60_000_000)
    finally:
        sys.stdout = old
    _CURSOR[variant["j"]] = W.now() + 1.0
    if out["kind"] == "limit_time":
        out["msg"] = None       # where the deadline lands (interpreter step, regex step) words the message
    return {"kind": out["kind"], "value": out.get("value"), "cls": out.get("cls"), "msg": out.get("msg"),
            "log": log, "stdout": buf.getvalue()[:2000]}


def worker(seed, tier, variant, only=None):
    W.install()
    cs = cases(seed, tier)
    if only is not None:
        cs = [c for c in cs if c[0] in only]
    rng = substream(seed, "c15order", variant["order_seed"])
    order = list(range(len(cs)))
    rng.shuffle(order)
    out = {}
    full = {}
    for idx in order:
        cid, src = cs[idx]
        if variant["neighbours"] and only is None:
            # other contexts evaluate other programs before this one
            for _ in range(rng.randrange(0, 3)):
                if rng.random() < 0.5:
                    ff = FAILING[rng.randrange(len(FAILING))]
                    ocid, osrc = ff[0], ff[1]
                else:
                    ocid, osrc = cs[rng.randrange(len(cs))]
                try:
                    eval_case(osrc, variant, rng, ocid)
                except Exception:
                    pass
        if variant["neighbours"] and only is None and rng.random() < 0.6:
            for psrc in poison_twins(src):
                if rng.random() < 0.5:
                    try:
                        eval_case(psrc, variant, rng)
                    except Exception:
                        pass
        r = eval_case(src, variant, rng, cid)
        out[cid] = hashlib.sha256(json.dumps(r, sort_keys=True, default=repr).encode()).hexdigest()
        if only is not None:
            full[cid] = r
    return out, full


def spawn(seed, tier, variant, only=None):
    env = dict(os.environ)
    env["PYTHONHASHSEED"] = str(variant["hashseed"])
    env["PYTHONDONTWRITEBYTECODE"] = "1"
    env["SIMJS_CHILD"] = "1"
    args = [sys.executable, os.path.join(HERE, "run.py"), "c15worker", str(seed), tier, json.dumps(variant)]
    if only is not None:
        args.append(json.dumps(sorted(only)))
    return subprocess.Popen(args, env=env, stdout=subprocess.PIPE, stderr=subprocess.PIPE, text=True)


def _collect(procs, timeout_s=1500):
    res = []
    t0 = time.monotonic()
    for v, p in procs:
        try:
            so, se = p.communicate(timeout=max(1, timeout_s - (time.monotonic() - t0)))
        except subprocess.TimeoutExpired:
            p.kill()
            res.append((v, None, "timeout"))
            continue
        if p.returncode != 0:
            res.append((v, None, se[-2000:]))
            continue
        res.append((v, json.loads(so.strip().splitlines()[-1]), None))
    return res


def custom_check(tier, seed, nproc=None):
    t0 = time.monotonic()
    vs = variants(seed, tier)
    nproc = nproc or os.cpu_count() or 4
    results = []
    for k in range(0, len(vs), nproc):
        procs = [(v, spawn(seed, tier, v)) for v in vs[k:k + nproc]]
        results += _collect(procs)
    harness = ["variant %d: %s" % (v["j"], err) for v, r, err in results if r is None]
    good = [(v, r["digests"]) for v, r, err in results if r is not None]
    exit_code = 0
    n_viol = 0
    cs = cases(seed, tier)
    differing = []
    if len(good) >= 2:
        base_v, base = good[0]
        for cid, _ in cs:
            ds = {}
            for v, d in good:
                ds.setdefault(d.get(cid), []).append(v)
            if len(ds) > 1:
                differing.append((cid, ds))
    for cid, ds in differing[:10]:
        groups = sorted(ds.values(), key=lambda g: -len(g))
        va, vb = groups[0][0], groups[1][0]
        # minimise: the case alone (no neighbours, fixed order) under the two variants
        alone = _collect([(va, spawn(seed, tier, va, only=[cid])), (vb, spawn(seed, tier, vb, only=[cid]))])
        ra, rb = alone[0][1], alone[1][1]
        cause = "order/neighbour activity or clock"
        if ra and rb and ra["digests"].get(cid) != rb["digests"].get(cid):
            vb2 = dict(vb, tick=va["tick"], epoch=va["epoch"], wall_epoch=va["wall_epoch"], time_limit=va["time_limit"],
                       clock_faults=va["clock_faults"], order_seed=va["order_seed"], neighbours=va["neighbours"])
            again = _collect([(vb2, spawn(seed, tier, vb2, only=[cid]))])[0][1]
            if again and again["digests"].get(cid) != ra["digests"].get(cid):
                cause = "PYTHONHASHSEED %d vs %d alone" % (va["hashseed"], vb["hashseed"])
                vb = vb2
            else:
                cause = "clock configuration"
        src = dict(cs)[cid]
        doc = {"property": PROPERTY, "clause": "C15.same", "signature": {"exact": sha1([cid, cause]), "class": [cause]},
               "case": {"cid": cid, "seed": seed, "tier": tier, "src": src, "variant_a": va, "variant_b": vb, "alone": bool(ra and rb and ra["digests"].get(cid) != rb["digests"].get(cid))},
               "expect": {"a": (ra or {}).get("full", {}).get(cid), "b": (rb or {}).get("full", {}).get(cid)}}
        os.makedirs(os.path.join(VERIF, "replays"), exist_ok=True)
        path = os.path.join(VERIF, "replays", "C15-same-%s-%s.json" % (sha1([cid, cause])[:10], seed))
        json.dump(doc, open(path, "w"), indent=1, sort_keys=True, default=repr)
        print("VIOLATION property=C15 replay=%s" % path)
        print("  C15.same: case %s evaluates differently under %s" % (cid, cause))
        exit_code = 1
        n_viol += 1
    if len(differing) > 10:
        print("note: %d further differing cases not written out" % (len(differing) - 10))
    wall = time.monotonic() - t0
    distinct = len({d for v, r in good for d in r.values()})
    n_runs = sum(len(r) for v, r in good)
    nontriv = sum(1 for cid, _ in cs if all(cid in r for v, r in good)) if good else 0
    sample_ids = [cs[0][0], cs[len(cs) // 2][0], cs[-1][0]]
    ev = {
        "property_id": PROPERTY, "tier": tier, "seed": seed, "level": LEVEL,
        "coverage": {
            "evaluations": n_runs,
            "distinct_nontrivial": nontriv,
            "rule": ("%d generated closure-heavy programs (many locals/params, captured and pass-through variables over up to 4 "
                     "function levels, named function expressions, arguments, arrows, closures made in loops and callbacks, catch "
                     "variables) + %d corpus scripts (tests/basic, tests/compat), each evaluated under %d variants = (PYTHONHASHSEED in "
                     "a fresh interpreter, seeded batch order, neighbour activity on/off, clock epoch/tick, monotonic and wall-clock "
                     "jumps, time limit none/generous). distinct_nontrivial = cases evaluated under every variant (each compared "
                     "across >= %d hash seeds); evaluations = case x variant runs."
                     % (n_generated(tier), len(cs) - n_generated(tier), len(vs), len(good))),
            "samples": [{"cid": c, "src": dict(cs)[c][:1500]} for c in sample_ids],
            "variants": [{k: v[k] for k in ("j", "hashseed", "neighbours", "clock_faults", "time_limit")} for v in vs],
            "hash_seeds": len({v["hashseed"] for v, r in good}),
            "distinct_digests": distinct,
            "differing_cases": len(differing),
            "runs_per_hour": int(n_runs / wall * 3600) if wall else 0,
            "faults_fired": {"mono_jump/wall_jump variants": sum(1 for v, r in good if v["clock_faults"]),
                             "neighbour-activity variants": sum(1 for v, r in good if v["neighbours"])},
            "harness_errors": harness[:10],
            "components": {"real": ["microjs (imported from /repo/src working tree) in a fresh interpreter per variant"],
                           "stub": ["time module (virtual clock)", "host callable log()", "sys.stdout capture"]},
        },
        "assumptions": ["Math.random and Date.now are never called by the cases", "threaded neighbour activity is not generated"],
        "wall_s": round(wall, 2),
        "violations": n_viol,
    }
    if os.environ.get("SIMJS_NO_EVIDENCE") != "1":
        os.makedirs(os.path.join(VERIF, "evidence"), exist_ok=True)
        json.dump(ev, open(os.path.join(VERIF, "evidence", "C15.json"), "w"), indent=1, sort_keys=True, default=repr)
    for h in harness:
        print("HARNESS: %s" % h[:500])
    print("C15 %s: %d cases x %d variants (%d hash seeds), %d differing, %.1fs" % (
        tier, len(cs), len(good), len({v["hashseed"] for v, r in good}), len(differing), wall))
    if exit_code == 0 and (harness or len(good) < 2):
        return 2
    return exit_code


def replay(doc):
    c = doc["case"]
    a = _collect([(c["variant_a"], spawn(c["seed"], c["tier"], c["variant_a"], only=[c["cid"]] if c.get("alone") else None)),
                  (c["variant_b"], spawn(c["seed"], c["tier"], c["variant_b"], only=[c["cid"]] if c.get("alone") else None))])
    da = a[0][1]["digests"].get(c["cid"]) if a[0][1] else None
    db = a[1][1]["digests"].get(c["cid"]) if a[1][1] else None
    print(json.dumps({"digest_a": da, "digest_b": db}))
    if da != db:
        print("VIOLATION property=C15 replay=<this file>")
        return 1
    print("replay: digests agree")
    return 0
