"""C10 -- the regex engine is total: bounded work, no host errors (second sentence of C10).

One regex API call per case on a catastrophic pattern/subject, with the engine's budgets
(step_limit, stack_limit, poll_interval) randomised per run and, in half of the cases, a
deadline landing at an arbitrary regex step.
"""
import json

import world as W
from common import B_OVERRUN, substream, loguniform, sha1, OffsetTrack, jump_mono, run_eval, landing

PROPERTY = "C10"
LEVEL = "fault_enumeration"

# family -> (pattern, subject builder(n), uses lookaround)
FAMILIES = {
    "nested_plus": ("(a+)+b", lambda n: "a" * n, False),
    "nested_star": ("(a*)*b", lambda n: "a" * n, False),
    "alt_overlap": ("(a|aa)+b", lambda n: "a" * n, False),
    "alt_overlap3": ("(a|a|a)*b", lambda n: "a" * n, False),
    "opt_chain": ("(a?){8}a{8}b", lambda n: "a" * n, False),
    "dot_star2": ("(.*)*x", lambda n: "ab" * (n // 2), False),
    "backref_loop": ("(a*)\\1*b", lambda n: "a" * n, False),
    "backref_alt": ("(a|aa)\\1+b", lambda n: "a" * n, False),
    "empty_loop": ("(a*|b*)*c", lambda n: "ab" * (n // 2), False),
    "lazy_nested": ("(a+?)+?b", lambda n: "a" * n, False),
    "counted": ("(a{1,3}){1,9}b", lambda n: "a" * n, False),
    "wide_alt": ("(a|b|ab|ba)*c", lambda n: "ab" * (n // 2), False),
    "la_nested_plus": ("(?=(a+)+b)a", lambda n: "a" * n, True),
    "la_star_star": ("(?=(a*)*b)", lambda n: "a" * n, True),
    "la_in_loop": ("((?=(a+)+b)a)*c", lambda n: "a" * n, True),
    # a cheap lookaround executed at every step of a catastrophically backtracking main loop
    "la_cheap_in_cat_loop": ("(?:(?=a)a|a)*b", lambda n: "a" * n, True),
    "lb_cheap_in_cat_loop": ("(?:a(?<=a)|a)*b", lambda n: "a" * n, True),
    "neg_la_cheap_in_cat_loop": ("((?!b)a|a)+c", lambda n: "a" * n, True),
    "neg_la": ("(?!(a+)+b)a{2}z", lambda n: "a" * n, True),
    "lb_nested_plus": ("(?<=(a+)+b)c", lambda n: "a" * n + "c", True),
    "lb_late": ("x(?<=(a+)+b)", lambda n: "a" * n + "x", True),
    "neg_lb_late": ("x(?<!(a+)+b)y", lambda n: "a" * n + "x", True),
    "lb_in_loop": ("(a(?<=(a|aa)+b))*c", lambda n: "a" * n, True),
    "neg_lb": ("(?<!(a+)+b)c", lambda n: "a" * n + "c", True),
    # patterns that can match the empty string: every scanning API must still advance
    "empty_star": ("a*", lambda n: "a" * min(n, 40) + "b" + "a" * 3, False),
    "empty_group_star": ("(a*)*", lambda n: "ab" * min(n, 20), False),
    "empty_anchor": ("$|^", lambda n: "a\nb" * min(n, 10), False),
    "caret_only": ("^", lambda n: "a\nb\n" * min(n, 10), False),
    # subjects with characters outside the BMP: code-point and UTF-16 indexes differ
    "astral_boundary": ("\\b|$", lambda n: "\U0001F600\U0001F600 a\U0001F600" * min(n, 4), False),
    "astral_dot_star": ("(.*)*\U0001F601", lambda n: "\U0001F600" * min(n, 20), False),
    "astral_class": ("[\U0001F600a]+b", lambda n: "\U0001F600a" * min(n, 12), False),
    "caret_dollar_ml": ("^b$|^$", lambda n: "a\nb\n" * min(n, 10), False),
    "empty_boundary": ("\\b", lambda n: "ab cd " * min(n, 8), False),
    "empty_lookahead": ("(?=a)", lambda n: "a" * min(n, 30), True),
    # many short matcher activations: a lookbehind retried from every earlier position at every
    # start position (quadratic number of sub-matcher runs, each far shorter than a poll interval)
    "lb_scan_quadratic": ("(?<=b.*)c", lambda n: "a" * n, True),
    "lb_scan_quadratic2": ("(?<!b.*)c", lambda n: "a" * n, True),
    "big_count": ("a{5000}b|(?:ab){1500}c", lambda n: "a" * min(n, 40), False),
    # towers of uncounted quantifiers: a short pattern string must stay a short program
    "plus_tower": ("(?:" * 18 + "a" + ")+" * 18, lambda n: "a" * min(n, 12), False),
    "star_tower": ("(?:" * 18 + "ab" + ")*" * 18 + "c", lambda n: "ab" * min(n, 6) + "c", False),
    "opt_tower": ("(" * 14 + "a" + ")?" * 14 + "b", lambda n: "a" * min(n, 3) + "b", False),
    "lazy_plus_tower": ("(?:" * 16 + "a" + ")+?" * 16 + "$", lambda n: "a" * min(n, 8), False),
    "exact_repeat": ("a{200}b", lambda n: "a" * n, False),
    "long_literal": ("a" * 120 + "b", lambda n: "a" * n, False),
    "class_exact": ("[a-c]{150}d", lambda n: "abc" * (n // 3), False),
    "benign_scan": ("ab", lambda n: "a" * n, False),
    "quadratic_class": ("[a-c]+d", lambda n: "abc" * (n // 3), False),
}
# patterns sized around the engine's capacity limit for position registers: just
# below, at and above a limit the answer is a match or a SyntaxError, never a host error
for _k in (254, 255, 256, 257):
    FAMILIES["loops_%d" % _k] = ("(?:a?)*" * _k, lambda n: "a" * min(n, 5), False)
FAMILY_NAMES = sorted(FAMILIES)

APIS = {
    "test": "%(R)s.test(S)",
    "exec": "%(R)s.exec(S)",
    "match": "S.match(%(R)s)",
    "match_g": "S.match(%(RG)s)",
    "search": "S.search(%(R)s)",
    "replace": "S.replace(%(R)s, 'x')",
    "replace_g": "S.replace(%(RG)s, 'x')",
    "replaceAll": "S.replaceAll(%(RG)s, 'x')",
    "split": "S.split(%(R)s)",
    "split_limit": "S.split(%(R)s, 3)",
    # a RegExp reused on a shorter subject: lastIndex points beyond the end (or is negative / fractional)
    "lastindex_beyond_test": "(function(){ var r = %(RY)s; r.lastIndex = S.length + 3; return [r.test('ab'), r.test(''), r.lastIndex]; })()",
    "lastindex_beyond_exec": "(function(){ var r = %(RY)s; r.lastIndex = S.length + 7; var m = r.exec('x\\ny'); return [m === null, r.lastIndex]; })()",
    "lastindex_sweep": "(function(){ var r = %(RY)s, k = 0; for (var q = 0; q <= Math.min(2 * S.length + 3, 60); q++) { r.lastIndex = q; r.test(S); r.lastIndex = q; r.exec(S); k++; } return k > 0; })()",
    "exec_then_test": "(function(){ var r = %(RY)s, k = 0; while (k++ < 12) { r.exec(S); r.test(S); } return k; })()",
    "lastindex_odd_values": "(function(){ var r = %(RY)s, out = []; var vs = [-1, 2.5, 1e9, S.length, S.length + 1]; for (var q = 0; q < vs.length; q++) { r.lastIndex = vs[q]; out.push(r.test(S)); } return out.length; })()",
    "split_limit_g": "S.split(%(RG)s, 1)",
    "replace_dollar": "S.replace(%(RG)s, '[$&$1]')",
    "match_str": "S.match(%(P)s)",
    "search_str": "S.search(%(P)s)",
    "exec_g_loop": "(function(){ var r=%(RG)s, k=0; while(r.exec(S) && k<50){ k++; } return k; })()",
}
API_NAMES = sorted(APIS)
BUILDS = ("literal", "ctor", "setup_literal", "setup_ctor")   # setup_*: made by an EARLIER eval on the same context


def render(cell):
    pat, sb, _ = FAMILIES[cell["family"]]
    subj = sb(cell["n"])
    pj = json.dumps(pat, ensure_ascii=False)
    fl = cell.get("flags", "")
    if cell["build"] == "literal":
        R, RG = "/%s/%s" % (pat, fl), "/%s/g%s" % (pat, fl)
    elif cell["build"].startswith("setup_"):
        R, RG = "rxs", "rxsg"
    else:
        R, RG = "new RegExp(%s,'%s')" % (pj, fl), "new RegExp(%s,'g%s')" % (pj, fl)
    fy = "".join(sorted(set(fl + "y")))
    RY = ("/%s/%s" % (pat, fy)) if cell["build"] != "ctor" else "new RegExp(%s,'%s')" % (pj, fy)
    call = APIS[cell["api"]] % {"R": R, "RG": RG, "P": pj, "RY": RY}
    wrap = cell.get("wrap", "none")
    body = "var r0 = %s;" % call
    if wrap == "try":
        body = "var r0; try{ r0 = %s; }catch(e){ p('c'); r0 = 'caught:' + e.name; }" % call
    return "var S=%s;\n%s\n\"done\";" % (json.dumps(subj, ensure_ascii=False), body)


def setup_src(cell):
    if not cell["build"].startswith("setup_"):
        return None
    pat = FAMILIES[cell["family"]][0]
    fl = cell.get("flags", "")
    if cell["build"] == "setup_literal":
        return "var rxs=/%s/%s, rxsg=/%s/g%s; 'setup';" % (pat, fl, pat, fl)
    return "var rxs=new RegExp(%s,'%s'), rxsg=new RegExp(%s,'g%s'); 'setup';" % (json.dumps(pat, ensure_ascii=False), fl, json.dumps(pat, ensure_ascii=False), fl)


def n_cases(tier):
    return 2500 if tier == "quick" else 12000


def gen_case(seed, i, tier="quick"):
    rng = substream(seed, "c10", i)
    nf, na = len(FAMILY_NAMES), len(API_NAMES)
    total = nf * na
    j = (i * 7919 + substream(seed, "c10off", 0).randrange(total)) % total
    fam = FAMILY_NAMES[j % nf]
    api = API_NAMES[(j // nf) % na]
    look = FAMILIES[fam][2]
    # knobs: exhaustion paths must run in milliseconds, and correctness must not depend on one
    # configuration. Legitimate worst-case work is ~ n * step_limit (n * step_limit^2 with a
    # lookaround inside a loop), so n is drawn to keep that within the tier's budget.
    budget = 300_000 if tier == "quick" else 3_000_000
    if look:
        step = rng.choice((50, 100, 200) if tier == "quick" else (50, 100, 200, 400))
        n = rng.choice([x for x in (14, 18, 22, 26) if x * step * step <= budget * 4] or [14])
    else:
        step = rng.choice((50, 200, 1000, 5000, 20000, 100000))
        n = rng.choice([x for x in (1, 5, 20, 26, 40, 100, 1000, 10000) if x * step <= budget] or [1 if step > budget else 5])
        if step >= 20000:
            n = rng.choice((20, 26, 30))
    if fam == "benign_scan":
        n = rng.choice((10, 1000, 10000))   # linear: two steps per start position
    if fam in ("exact_repeat", "long_literal", "class_exact"):
        n = rng.choice((300, 1000, 3000, 8000))
        step = max(step, 1000)
    if fam.startswith("lb_scan_quadratic"):
        n = rng.choice((200, 600, 900) if tier == "quick" else (200, 600, 1500, 3000))
    if rng.random() < 0.1:
        stack = rng.choice((8, 32))          # tiny backtrack stack: overflow path
    else:
        stack = rng.choice((100, 1000, 10000))
    poll = rng.choice((1, 7, 100))
    cell = {"family": fam, "api": api, "build": rng.choice(BUILDS), "n": n, "wrap": rng.choice(("none", "none", "try")),
            "flags": rng.choice(("", "", "", "y", "y", "i", "m", "s", "iy", "my", "u", "uy", "muy", "iu"))}
    if fam.startswith("astral") or (fam.startswith("empty_") and rng.random() < 0.3):
        # positions matter here: sweep lastIndex, alternate exec/test, mostly with the u flag
        if rng.random() < 0.7:
            cell["api"] = rng.choice(("lastindex_sweep", "exec_then_test", "lastindex_beyond_test", "lastindex_odd_values", "match_g", "split"))
        if rng.random() < 0.7:
            cell["flags"] = rng.choice(("u", "uy", "muy", "iu", "gu"))
    timed = rng.random() < 0.5
    tick = 10 ** rng.uniform(-6, -4)
    case = {"property": PROPERTY, "seed": seed, "index": i, "cell": cell,
            "knobs": {"step_limit": step, "stack_limit": stack, "poll_interval": poll},
            "world": {"tick": tick, "epoch": round(rng.uniform(0, 1e5), 3)},
            "T_work": loguniform(rng, 200, 200000) if timed else None,
            "faults": []}
    if timed and rng.random() < 0.2:
        case["faults"].append({"kind": "mono_jump", "at_work": rng.randrange(1, case["T_work"]),
                               "delta": round(case["T_work"] * tick * rng.choice((0.5, 1.0, 2.0)), 9)})
    case["src"] = render(cell)
    return case


_patched = {}


def _install_knobs():
    """Wrap RegexVM.__init__ (class constants are bound as default arguments, patching them would
    do nothing) and count matcher activations."""
    if _patched:
        return _patched
    from microjs.regex import vm as rvm
    cls = rvm.RegexVM
    state = {"knobs": None, "lost": False, "act": {"main": 0, "la": 0, "lb": 0}, "subs": {"la": 0, "lb": 0}}
    orig_init = cls.__init__

    def init(self, *a, **k):
        orig_init(self, *a, **k)
        kn = state["knobs"]
        if kn:
            for attr in ("step_limit", "stack_limit", "poll_interval"):
                if not hasattr(self, attr):
                    state["lost"] = True
                else:
                    setattr(self, attr, kn[attr])
    cls.__init__ = init

    def count(name, key):
        orig = getattr(cls, name, None)
        if orig is None:
            state["lost"] = True
            return

        def wrapper(self, *a, **k):
            act = state["act"]
            act[key] += 1
            if key == "main":
                state["subs"] = {"la": 0, "lb": 0}      # sub-matcher activations of this attempt
            else:
                state["subs"][key] = state["subs"].get(key, 0) + 1
            grow = state.get("grow")
            if grow:
                grow(act)
            return orig(self, *a, **k)
        setattr(cls, name, wrapper)
    count("_execute", "main")
    count("_execute_lookahead", "la")
    count("_try_lookbehind_at", "lb")
    _patched.update(state=state)
    return _patched


BOUND_C = 8          # work units per regex step (loop jump + helper calls), generous
BOUND_PER_ACT = 400  # fixed cost per matcher activation (captures copy etc.)
BOUND_C0 = 60_000    # parse/compile/script overhead


def work_bound(case, act):
    n = len(FAMILIES[case["cell"]["family"]][1](case["cell"]["n"]))
    S = case["knobs"]["step_limit"]
    acts = act["main"] + act["la"] + act["lb"]
    return BOUND_C * (S + 2) * max(1, acts) + BOUND_PER_ACT * acts + 60 * n + BOUND_C0 + 600 * len(FAMILIES[case["cell"]["family"]][0])


def execute(case):
    W.install()
    from microjs import Context
    st = _install_knobs()["state"]
    st["knobs"] = case["knobs"]
    st["act"] = {"main": 0, "la": 0, "lb": 0}
    st["subs"] = {"la": 0, "lb": 0}
    wd = case["world"]
    W.reset(tick=wd["tick"], epoch=wd["epoch"], seed=case.get("seed", 0))
    S = W.S
    T_work = case.get("T_work")
    T = T_work * S.tick if T_work else None
    ctx = Context(time_limit=T)
    track = OffsetTrack()
    probes = []
    ctx.set("p", lambda *a: probes.append(S.work))
    base = S.work
    fired = []
    for f in case.get("faults", []):
        def fn(f=f):
            jump_mono(track, f["delta"], "mono_jump")
            fired.append("mono_jump")
        W.schedule(base + f["at_work"], fn)
    n = len(FAMILIES[case["cell"]["family"]][1](case["cell"]["n"]))
    # The cap follows the budget: every matcher activation buys BOUND_C*(step_limit+2) more
    # work units, and a call may start at most 6*(n+2)+60 top-level attempts. Exceeding the cap
    # means one activation overran its step budget (or attempts never end): C10.bound/hang.
    ssrc = setup_src(case["cell"])
    if ssrc is not None:
        run_eval(ctx, ssrc, 3_000_000)
        if T is not None:
            S.mono_off += 2.5 * T      # the process was stalled between the two evals
    start = S.work
    per_act = BOUND_C * (case["knobs"]["step_limit"] + 2) + BOUND_PER_ACT
    # reading the source text and compiling the pattern is linear in the pattern's length (several
    # entry points build the pattern more than once)
    c0 = BOUND_C0 + 600 * len(FAMILIES[case["cell"]["family"]][0])
    max_main = 6 * (n + 2) + 60

    S_lim = case["knobs"]["step_limit"]

    def grow(act):
        subs = st["subs"]
        if act["main"] > max_main or subs["la"] > S_lim + 2 or subs["lb"] > (S_lim + 2) * (n + 2):
            # too many attempts, or one attempt started more sub-matchers than it has steps:
            # its own step budget is not being enforced -- stop now
            W.set_cap(S.work)
            return
        W.set_cap(start + 2 * (c0 + 60 * n + per_act * (act["main"] + act["la"] + act["lb"] + 1)))
    st["grow"] = None
    cap = 2 * (c0 + 60 * n + per_act)
    off0 = S.mono_off
    st["grow"] = grow
    try:
        out = run_eval(ctx, case["src"], cap, track)
    finally:
        st["grow"] = None
    st["knobs"] = None
    act = dict(st["act"])
    res = {"outcome": out["kind"], "cls": out.get("cls"), "msg": out.get("msg"), "value": out.get("value"),
           "work": out["end_work"] - out["start_work"], "elapsed": out["end_now"] - out["start_now"], "T": T,
           "landing": landing(out.get("sites", [])), "act": act, "probe_lost": st["lost"],
           "clock_reads": out["clock_reads"], "fired": fired, "n_probes": len(probes), "n": n,
           "digest": W.digest(), "bdigest": W.bdigest()}
    if T is not None:
        cross = track.cross_work(out["start_work"], out["end_work"], off0, out["start_now"] + T)
        res["overrun"] = (out["end_work"] - cross) if cross is not None else 0
        if cross is not None:
            res["fired"] = fired + ["deadline"]
    else:
        res["overrun"] = 0
    res["bound"] = work_bound(case, act)
    res["violations"] = judge(case, res)
    return res


def judge(case, r):
    v = []
    timed = case.get("T_work") is not None
    n = r["n"]
    if r["outcome"] == "cap":
        v.append({"clause": "C10.bound", "detail": "stopped by the simulator after %d work units: more than twice the budget of %d matcher activations with step_limit=%d on %d characters (or more than %d top-level attempts, or one attempt started more sub-matchers than it has steps)" % (
            r["work"], sum(r["act"].values()), case["knobs"]["step_limit"], n, 6 * (n + 2) + 60)})
        return v
    if r["outcome"] == "host_exc":
        v.append({"clause": "C10.class", "detail": "host exception escaped eval: %s: %s" % (r["cls"], r["msg"])})
    elif r["outcome"] == "limit_time":
        if not timed:
            v.append({"clause": "C10.class", "detail": "TimeLimitError without a time limit"})
        elif r["elapsed"] <= r["T"] * (1 - 1e-9):
            v.append({"clause": "C10.early", "detail": "TimeLimitError after %.9fs of a %.9fs limit" % (r["elapsed"], r["T"])})
    elif r["outcome"] in ("limit_mem", "js_error"):
        pass  # a JSError on budget exhaustion is a defined outcome
    elif r["outcome"] == "js_syntax":
        v.append({"clause": "precondition", "detail": "pattern rejected: %s" % r["msg"]})
    elif r["outcome"] == "value" and r["value"] != "done":
        v.append({"clause": "precondition", "detail": "unexpected completion value"})
    if not timed or r["outcome"] == "value":
        # bounded work governed by the step budget (per matcher activation)
        if r["work"] > r["bound"] and not (timed and r["overrun"] <= B_OVERRUN and False):
            v.append({"clause": "C10.bound", "detail": "%d work units for %d matcher activations with step_limit=%d on %d characters (bound %d)" % (
                r["work"], sum(r["act"].values()), case["knobs"]["step_limit"], n, r["bound"])})
    if timed and r["overrun"] > B_OVERRUN + 60 * n:
        v.append({"clause": "C10.overrun", "detail": "%d work units after the deadline (bound %d)" % (r["overrun"], B_OVERRUN + 60 * n)})
    return v


def violation_clauses(res):
    return sorted({v["clause"] for v in res.get("violations", []) if v["clause"].startswith("C10.")})


def features(case, res=None):
    c = case["cell"]
    f = ["family:" + c["family"], "api:" + c["api"]]
    if c["build"] != "literal":
        f.append("build:" + c["build"])
    if c.get("flags"):
        f.append("flags:" + c["flags"])
    if c.get("wrap", "none") != "none":
        f.append("wrap:" + c["wrap"])
    if case.get("T_work"):
        f.append("timed")
    if case["knobs"]["stack_limit"] < 100:
        f.append("stack:tiny")
    for flt in case.get("faults", []):
        f.append("fault:" + flt["kind"])
    return sorted(set(f))


def normalise(case):
    return {"features": features(case)}


def shrink_candidates(case):
    c = case["cell"]

    def mk(**kw):
        x = json.loads(json.dumps(case))
        for k, val in kw.items():
            if k in ("T_work", "faults", "knobs", "world"):
                x[k] = val
            else:
                x["cell"][k] = val
        x["src"] = render(x["cell"])
        return x
    if case.get("faults"):
        yield mk(faults=[])
    if case.get("T_work"):
        yield mk(T_work=None, faults=[])
    if c.get("wrap", "none") != "none":
        yield mk(wrap="none")
    if c["build"] != "literal":
        yield mk(build="literal")
    if c.get("flags"):
        yield mk(flags="")
    if c["api"] != "test":
        yield mk(api="test")
    kn = case["knobs"]
    if kn["stack_limit"] != 10000:
        yield mk(knobs=dict(kn, stack_limit=10000))
    if kn["poll_interval"] != 100:
        yield mk(knobs=dict(kn, poll_interval=100))
    for fam in ("nested_plus", "la_nested_plus"):
        if c["family"] != fam:
            yield mk(family=fam, n=18, knobs=dict(kn, step_limit=min(kn["step_limit"], 200)))


def nontrivial_key(case, res):
    c = case["cell"]
    exhausted = res["work"] > 2 * case["knobs"]["step_limit"] or res["outcome"] != "value"
    if not exhausted and not res.get("fired"):
        return None
    return "|".join([c["family"], c["api"], c["build"], c.get("flags", ""), str(case["knobs"]["step_limit"]), str(case["knobs"]["stack_limit"]),
                     "T" if case.get("T_work") else "-", res["outcome"], res.get("landing", "")])


RULE = ("case i = element of the product pattern family (%d, catastrophic and two benign) x API entry point (%d), with seeded subject "
        "length, construction form, engine budgets (step_limit 50..100000, stack_limit 8..10000, poll_interval 1..100, injected by "
        "wrapping RegexVM.__init__), and for half of the cases a deadline at a log-uniform work unit (plus clock jumps). Non-trivial "
        "= a budget was exhausted (work > 2*step_limit) or a fault fired; distinct = (family, api, build, step_limit, stack_limit, "
        "timed, outcome, landing site)." % (len(FAMILY_NAMES), len(API_NAMES)))

ASSUMPTIONS = [
    "only the second sentence of C10 (bounded work, no host errors on budget exhaustion) is decided; acceptance/rejection of arbitrary pattern strings is a pure function of the string and is not claimed",
    "work bound: 8*(step_limit+2) units per matcher activation + 400 per activation + 60 per subject character + 60000",
]


def stats(case, res):
    return {"outcome": ("timed:" if case.get("T_work") else "untimed:") + res["outcome"],
            "landing_sites": res.get("landing") or "-", "family": case["cell"]["family"], "api": case["cell"]["api"],
            "faults_fired": list(res.get("fired", [])) + (["step_or_stack_budget"] if res["work"] > 2 * case["knobs"]["step_limit"] else []),
            "max_work": res["work"], "max_overrun": res.get("overrun", 0), "activations_main": res["act"]["main"],
            "activations_lookahead": res["act"]["la"], "activations_lookbehind": res["act"]["lb"],
            "probe_lost": 1 if res.get("probe_lost") else 0,
            "precondition_failed": 1 if any(v["clause"] == "precondition" for v in res.get("violations", [])) else 0,
            "step_limit": str(case["knobs"]["step_limit"]), "stack_limit": str(case["knobs"]["stack_limit"])}


def sample_view(case):
    return {k: case[k] for k in ("index", "T_work", "knobs", "faults", "cell", "src")}
