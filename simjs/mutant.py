#!/venv/bin/python
"""Development tool (not a registered check): evaluate a seeded change against the checks.

  mutant.py eval <dir with patch.diff|MUTANT.diff and demo.py> [--checks C01,C07] [--n N]

1. applies the patch to a scratch worktree of /repo HEAD under /var/tmp, runs the test suite
   there (counts must equal the baseline) and the demonstration with and without the change;
2. applies the patch to /repo itself (git apply), runs the listed quick checks, and undoes it
   (git checkout -- .) whatever happens;
3. prints one line per check: CAUGHT (exit 1 with a VIOLATION line) / MISSED / HARNESS.
"""
import argparse
import json
import os
import re
import shutil
import subprocess
import sys
import time

VERIF = os.path.dirname(os.path.dirname(os.path.abspath(__file__)))
PY = "/venv/bin/python"


def sh(cmd, cwd=None, env=None, timeout=3600):
    p = subprocess.run(cmd, shell=True, cwd=cwd, env=env, capture_output=True, text=True, timeout=timeout)
    return p.returncode, p.stdout + p.stderr


def find_patch(d):
    for n in ("patch.diff", "MUTANT.diff"):
        p = os.path.join(d, n)
        if os.path.exists(p):
            return p
    raise SystemExit("no patch in %s" % d)


def main():
    ap = argparse.ArgumentParser()
    ap.add_argument("cmd")
    ap.add_argument("dir")
    ap.add_argument("--checks", default="C01,C02,C07,C10,C12,C15")
    ap.add_argument("--n", type=int)
    ap.add_argument("--skip-suite", action="store_true")
    ap.add_argument("--base", default="HEAD", help="commit of /repo the scratch worktree starts from (with --scratch)")
    ap.add_argument("--scratch", action="store_true", help="run the checks against the scratch worktree (SIMJS_REPO_SRC) instead of applying the patch to /repo")
    a = ap.parse_args()
    d = os.path.abspath(a.dir)
    patch = find_patch(d)
    demo = os.path.join(d, "demo.py")
    report = {"dir": d, "patch": patch}
    rc, out = sh("git -C /repo status --porcelain")
    if out.strip():
        raise SystemExit("/repo is not clean:\n" + out)
    wt = "/var/tmp/simjs-mutant-%d" % os.getpid()
    sh("git -C /repo worktree add -q %s %s" % (wt, a.base if a.scratch else "HEAD"))
    try:
        env = dict(os.environ, PYTHONPATH=wt + "/src", PYTHONDONTWRITEBYTECODE="1")
        if os.path.exists(demo):
            rc0, o0 = sh("%s %s" % (PY, demo), cwd=wt, env=env, timeout=300)
            report["demo_without"] = rc0
        rc, out = sh("git apply %s" % patch, cwd=wt)
        if rc != 0:
            raise SystemExit("patch does not apply: " + out)
        if os.path.exists(demo):
            rc1, o1 = sh("%s %s" % (PY, demo), cwd=wt, env=env, timeout=300)
            report["demo_with"] = rc1
            report["demo_output"] = o1[-600:]
        if not a.skip_suite:
            rc, out = sh("%s -m pytest -q -p no:cacheprovider -n 8 2>&1 | tail -1" % PY, cwd=wt, env=env, timeout=1800)
            report["suite"] = out.strip()
        if a.scratch:
            print(json.dumps(report, indent=1))
            results = {}
            for pid in a.checks.split(","):
                t0 = time.time()
                env2 = dict(os.environ, SIMJS_REPO_SRC=wt + "/src", SIMJS_NO_EVIDENCE="1")
                env2.pop("SIMJS_CHILD", None)
                cmd = "%s simjs/run.py check %s --tier quick%s" % (PY, pid, (" --n %d" % a.n) if a.n else "")
                rc, out = sh(cmd, cwd=VERIF, env=env2, timeout=3600)
                viol = [l for l in out.splitlines() if l.startswith("VIOLATION")]
                detail = [l for l in out.splitlines() if l.startswith("  ")][:4]
                status = "CAUGHT" if (rc == 1 and viol) else ("MISSED" if rc == 0 else "HARNESS(rc=%d)" % rc)
                results[pid] = status
                print("%s: %s in %.0fs  %s" % (pid, status, time.time() - t0, (viol[0] if viol else "")))
                for l in detail:
                    print("   " + l.strip()[:200])
                if status.startswith("HARNESS"):
                    print(out[-1500:])
            print(json.dumps(results))
            return
    finally:
        sh("git -C /repo worktree remove --force %s" % wt)
        shutil.rmtree(wt, ignore_errors=True)
    print(json.dumps(report, indent=1))
    # checks against /repo itself
    rc, out = sh("git -C /repo apply %s" % patch)
    if rc != 0:
        raise SystemExit("patch does not apply to /repo: " + out)
    results = {}
    try:
        for pid in a.checks.split(","):
            t0 = time.time()
            cmd = "%s simjs/run.py check %s --tier quick%s" % (PY, pid, (" --n %d" % a.n) if a.n else "")
            rc, out = sh(cmd, cwd=VERIF, timeout=3600)
            viol = [l for l in out.splitlines() if l.startswith("VIOLATION")]
            detail = [l for l in out.splitlines() if l.startswith("  ")][:4]
            status = "CAUGHT" if (rc == 1 and viol) else ("MISSED" if rc == 0 else "HARNESS(rc=%d)" % rc)
            results[pid] = status
            print("%s: %s in %.0fs  %s" % (pid, status, time.time() - t0, (viol[0] if viol else "")))
            for l in detail:
                print("   " + l.strip()[:200])
            if status.startswith("HARNESS"):
                print(out[-1500:])
    finally:
        sh("git -C /repo checkout -- .")
        rc, out = sh("git -C /repo status --porcelain")
        if out.strip():
            print("WARNING: /repo not clean after undo:\n" + out)
    print(json.dumps(results))


if __name__ == "__main__":
    main()
