"""One-off: witness (program, schedule) pairs for the C07 findings repaired in /repo."""
import sys, os, json
sys.path.insert(0, os.path.dirname(os.path.abspath(__file__)))
import c07
from common import sha1

P = lambda k: {"t": "p", "k": k}
D = lambda k, form="throw_str": {"t": "d", "k": k, "form": form}
TRY = lambda i, b, c=None, f=None: {"t": "try", "id": i, "b": b, "c": c, "f": f}
LOOP = lambda i, kind, n, b, label=None: {"t": "loop", "id": i, "kind": kind, "n": n, "label": label, "b": b}
RET = lambda v: {"t": "ret", "v": v}
BRK = lambda loop, cond=None: {"t": "break", "loop": loop, "label": None, "cond": cond}
CONT = lambda loop, cond=None: {"t": "continue", "loop": loop, "label": None, "cond": cond}
CALL = lambda k, f, ctx="stmt": {"t": "call", "k": k, "f": f, "ctx": ctx}
NAT = lambda k, kind, b, rv=0: {"t": "native", "k": k, "kind": kind, "rv": rv, "b": b}

def mk(name, clause, funcs, sched):
    prog = {"funcs": [{"id": i, "b": b} for i, b in enumerate(funcs)], "profile": "witness"}
    assert c07.valid(prog)
    case = {"property": "C07", "seed": 0, "index": -1, "tier": "quick", "prog": prog, "schedules": [sched], "src": c07.render(prog)}
    doc = {"property": "C07", "clause": clause, "signature": {"exact": sha1(c07.normalise(case)), "class": c07.features(case)}, "case": case}
    path = os.path.join(os.path.dirname(os.path.dirname(os.path.abspath(__file__))), "findings", name + ".json")
    json.dump(doc, open(path, "w"), indent=1, sort_keys=True)
    print(path)

mk("C07-return-in-try-stale-handler", "C07.log", [[CALL(1, 1), D(2)], [TRY(1, [RET(11)], [P(3)])]], [0])
mk("C07-throw-from-catch-skips-finally", "C07.log", [[TRY(1, [D(1)], [D(2)], [P(3)])]], [0, 1])
mk("C07-return-in-finally-compile-recursion", "C07.host", [[TRY(1, [P(1)], None, [RET(12)])]], [])
mk("C07-break-runs-outer-finally", "C07.log", [[TRY(1, [LOOP(2, "for", 2, [BRK(2)]), P(3)], None, [P(4)])]], [])
mk("C07-callback-return-inlines-outer-finally", "C07.log", [[TRY(1, [NAT(2, "forEach", [RET(5)])], None, [P(3)])]], [])
mk("C07-throw-crosses-native-frame", "C07.log", [[TRY(1, [NAT(2, "forEach", [D(3)]), P(4)], [P(5)])]], [0])
mk("C07-typeerror-inside-callback-escapes", "C07.host", [[TRY(1, [NAT(2, "map", [D(3, "null_prop")])], [P(5)])]], [0])
mk("C07-runtime-error-not-instanceof-error", "C07.value", [[TRY(1, [D(1, "null_prop")], [P(2)])]], [0])
mk("C07-return-from-forin-shifts-caller-operands", "C07.operands", [[CALL(1, 1, "plus")], [LOOP(2, "forin", 2, [RET(13)])]], [])
mk("C07-finally-break-after-return-from-inner-loop", "C07.log",
   [[CALL(1, 1)], [LOOP(1, "for", 1, [TRY(2, [LOOP(3, "for", 1, [RET(None)])], None, [BRK(1)])])]], [])
mk("C07-json-parse-error-not-catchable", "C07.log", [[TRY(1, [D(1, "json_parse"), P(2)], [P(3)])]], [0])
mk("C07-builtin-error-inside-callback-not-catchable", "C07.log", [[TRY(1, [NAT(2, "map", [D(3, "json_parse")])], [P(5)])]], [0])
mk("C07-regexp-syntax-error-not-catchable", "C07.log", [[TRY(1, [D(1, "regexp_ctor"), P(2)], [P(3)], [P(4)])]], [0])
mk("C07-match-bad-pattern-not-catchable", "C07.log", [[TRY(1, [D(1, "match_bad_pattern")], [P(3)])]], [0])
mk("C07-throw-inside-eval-code-loses-value", "C07.value", [[TRY(1, [NAT(2, "evalfn", [D(3, "throw_obj")])], [P(5)])]], [0])
mk("C07-throw-in-callback-inside-eval-code", "C07.value", [[TRY(1, [NAT(2, "eval_forEach", [D(3, "null_prop")])], [P(5)], [P(6)])]], [0])
mk("C07-typeof-name-inside-callback-host-typeerror", "C07.host",
   [[NAT(2, "forEach", [{"t": "expr", "k": 3, "src": "(typeof (undefined))"}]), P(4)]], [])
KNAT = lambda k, kind, b, rv=0: {"t": "native", "k": k, "kind": kind, "rv": rv, "b": b, "kept": True}
mk("C07-throw-through-kept-builtin-method-loses-value", "C07.value", [[TRY(1, [KNAT(2, "forEach", [D(3, "throw_obj")])], [P(5)])]], [0])
