#!/bin/bash
# development soak: every quick check under several seeds on the unchanged tree (no evidence written)
cd "$(dirname "$0")"
for seed in "$@"; do
  for p in C01 C02 C07 C10 C12 C15; do
    echo "== seed $seed $p"
    VERIF_SEED=$seed SIMJS_NO_EVIDENCE=1 SIMJS_MAX_NEW=3 timeout 3000 /venv/bin/python simjs/run.py check $p 2>&1 | grep -v "^HARNESS: minimise" | tail -5 | cut -c1-300
  done
done
echo SOAK-DONE
