p='/repo/src/microjs/compiler.py'; s=open(p).read()

old='''@dataclass
class TryContext:
    """Context for try-finally blocks (for break/continue/return)."""

    finalizer: Any = None  # The finally block AST node
'''
new='''@dataclass
class TryContext:
    """Context for try statements (for break/continue/return)."""

    finalizer: Any = None  # The finally block AST node (None for try/catch)
    # True while code is compiled that runs with this statement's exception
    # handler installed (the try block, or the catch block of a
    # try/catch/finally); a jump out of that code has to emit TRY_END
    handler_active: bool = False
'''
assert old in s; s=s.replace(old,new)

old='''    stack_items: int = 0
'''
new='''    stack_items: int = 0
    # Number of enclosing try statements when the construct was entered: a
    # break/continue only leaves the try statements nested deeper than that
    try_depth: int = 0
'''
assert old in s; s=s.replace(old,new)

old='''    def _emit_pending_finally_blocks(self) -> None:
        """Emit all pending finally blocks (for break/continue/return)."""
        # Emit finally blocks in reverse order (innermost first)
        for try_ctx in reversed(self.try_stack):
            if try_ctx.finalizer:
                self._compile_statement(try_ctx.finalizer)
'''
new='''    def _emit_pending_finally_blocks(self, down_to: int = 0) -> None:
        """Leave the try statements above depth `down_to` (break/continue/return).

        Innermost first: pop the statement's exception handler if the jump
        starts in code it protects, then run its finally block inline.
        """
        saved_try_stack = self.try_stack
        for depth in range(len(saved_try_stack) - 1, down_to - 1, -1):
            try_ctx = saved_try_stack[depth]
            if try_ctx.handler_active:
                self._emit(OpCode.TRY_END)
            if try_ctx.finalizer:
                # The finally block itself is outside this try statement
                self.try_stack = saved_try_stack[:depth]
                try:
                    self._compile_statement(try_ctx.finalizer)
                finally:
                    self.try_stack = saved_try_stack
'''
assert old in s; s=s.replace(old,new)

n0=s.count('LoopContext(')
s=s.replace('loop_ctx = LoopContext()\n','loop_ctx = LoopContext(try_depth=len(self.try_stack))\n')
s=s.replace('loop_ctx = LoopContext(stack_items=1)\n','loop_ctx = LoopContext(stack_items=1, try_depth=len(self.try_stack))\n')
s=s.replace('loop_ctx = LoopContext(is_loop=False, stack_items=1)\n','loop_ctx = LoopContext(\n                is_loop=False, stack_items=1, try_depth=len(self.try_stack)\n            )\n')
s=s.replace('loop_ctx = LoopContext(label=node.label.name, is_loop=False)\n','loop_ctx = LoopContext(\n                label=node.label.name, is_loop=False, try_depth=len(self.try_stack)\n            )\n')
assert s.count('try_depth=len(self.try_stack)')==7, s.count('try_depth=len(self.try_stack)')

old='''            # Emit pending finally blocks before the break
            self._emit_pending_finally_blocks()
'''
new='''            # Leave the try statements entered inside the target construct
            self._emit_pending_finally_blocks(ctx.try_depth)
'''
assert old in s; s=s.replace(old,new)
old='''            # Emit pending finally blocks before the continue
            self._emit_pending_finally_blocks()
'''
new='''            # Leave the try statements entered inside the target loop
            self._emit_pending_finally_blocks(ctx.try_depth)
'''
assert old in s; s=s.replace(old,new)

old='''        elif isinstance(node, ReturnStatement):
            # Emit pending finally blocks before the return
            self._emit_pending_finally_blocks()

            if node.argument:
                self._compile_expression(node.argument)
                self._emit(OpCode.RETURN)
            else:
                self._emit(OpCode.RETURN_UNDEFINED)
'''
new='''        elif isinstance(node, ReturnStatement):
            # The return value is computed first, then the enclosing finally
            # blocks run (they leave the value on the operand stack untouched)
            if node.argument:
                self._compile_expression(node.argument)
                self._emit_pending_finally_blocks()
                self._emit(OpCode.RETURN)
            else:
                self._emit_pending_finally_blocks()
                self._emit(OpCode.RETURN_UNDEFINED)
'''
assert old in s; s=s.replace(old,new)

a=s.index('        elif isinstance(node, TryStatement):\n            # Push TryContext')
b=s.index('        elif isinstance(node, SwitchStatement):\n            self._compile_expression(node.discriminant)')
new='''        elif isinstance(node, TryStatement):
            # Every try statement is tracked so that break/continue/return out
            # of it pop its handler and run its finally block
            try_ctx = TryContext(finalizer=node.finalizer)
            self.try_stack.append(try_ctx)

            # Try block
            try_start = self._emit_jump(OpCode.TRY_START)
            try_ctx.handler_active = True
            self._compile_statement(node.block)
            self._emit(OpCode.TRY_END)
            try_ctx.handler_active = False

            # Normal completion: skip the exception path
            jump_to_finally = self._emit_jump(OpCode.JUMP)

            # Exception path (the thrown value is on the stack)
            self._patch_jump(try_start)
            rethrow_handler = None
            if node.handler:
                if node.finalizer:
                    # A throw from the catch block still has to run finally
                    rethrow_handler = self._emit_jump(OpCode.TRY_START)
                    try_ctx.handler_active = True
                self._emit(OpCode.CATCH)
                # Store exception in catch variable
                name = node.handler.param.name
                self._add_local(name)
                slot = self._get_local(name)
                self._emit(OpCode.STORE_LOCAL, slot)
                self._emit(OpCode.POP)
                self._compile_statement(node.handler.body)
                if node.finalizer:
                    self._emit(OpCode.TRY_END)
                    try_ctx.handler_active = False
                # Fall through to the normal finally

            # The finally block is outside the statement it belongs to
            self.try_stack.pop()

            if node.finalizer:
                if node.handler:
                    # Normal completion of try or catch: finally, then go on
                    self._patch_jump(jump_to_finally)
                    self._compile_statement(node.finalizer)
                    jump_to_end = self._emit_jump(OpCode.JUMP)
                    self._patch_jump(rethrow_handler)
                else:
                    jump_to_end = jump_to_finally
                # Exception path: keep the exception in a hidden local while
                # finally runs (finally may itself break/continue/return),
                # then rethrow it
                pending = f"<pending_exception_{len(self.bytecode)}>"
                self._add_local(pending)
                slot = self._get_local(pending)
                self._emit(OpCode.STORE_LOCAL, slot)
                self._emit(OpCode.POP)
                self._compile_statement(node.finalizer)
                self._emit(OpCode.LOAD_LOCAL, slot)
                self._emit(OpCode.THROW)
                self._patch_jump(jump_to_end)
                if not node.handler:
                    # Normal completion of a try/finally
                    self._compile_statement(node.finalizer)
            else:
                self._patch_jump(jump_to_finally)

'''
s=s[:a]+new+s[b:]

old='''        old_loop_stack = self.loop_stack
        old_in_function = self._in_function
'''
new='''        old_loop_stack = self.loop_stack
        old_try_stack = self.try_stack
        old_in_function = self._in_function
'''
assert s.count(old)==2; s=s.replace(old,new)
old='''        self.loop_stack = []
        self._in_function = True
'''
new='''        self.loop_stack = []
        self.try_stack = []
        self._in_function = True
'''
assert s.count(old)==2; s=s.replace(old,new)
old='''        self.loop_stack = old_loop_stack
        self._in_function = old_in_function
'''
new='''        self.loop_stack = old_loop_stack
        self.try_stack = old_try_stack
        self._in_function = old_in_function
'''
assert s.count(old)==2; s=s.replace(old,new)
open(p,'w').write(s)
print("patched")
