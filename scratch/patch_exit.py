import sys
p=sys.argv[1]+'/src/microjs/compiler.py'; s=open(p).read()

old=s[s.index('    def _emit_pending_finally_blocks(self, down_to: int = 0) -> None:'):s.index('    def _add_constant(self, value: Any) -> int:')]
new='''    def _emit_exit_cleanup(self, target: Optional[LoopContext] = None) -> None:
        """Leave the constructs between here and `target` (break/continue/return).

        `target` is the loop/switch/label a break or continue jumps to, or None
        for a return. Innermost construct first: a loop or switch that is left
        pops what it keeps on the operand stack, a try statement that is left
        pops its exception handler (if the jump starts in code it protects)
        and runs its finally block inline. The finally block is compiled as
        the code *outside* its try statement that it is: with the try
        statements and loops that enclose that statement, not the ones the
        jump starts in.
        """
        saved_try_stack = self.try_stack
        saved_loop_stack = self.loop_stack
        if target is None:
            stop_loop, stop_try = -1, -1
        else:
            stop_loop = next(
                i for i, ctx in enumerate(saved_loop_stack) if ctx is target
            )
            stop_try = target.try_depth - 1
        li = len(saved_loop_stack) - 1
        ti = len(saved_try_stack) - 1
        while li > stop_loop or ti > stop_try:
            if li > stop_loop and saved_loop_stack[li].try_depth > ti:
                # The innermost construct still to leave is a loop/switch
                # (it was entered inside try statement number ti, or none)
                for _ in range(saved_loop_stack[li].stack_items):
                    self._emit(OpCode.POP)
                li -= 1
            elif ti > stop_try:
                try_ctx = saved_try_stack[ti]
                if try_ctx.handler_active:
                    self._emit(OpCode.TRY_END)
                if try_ctx.finalizer:
                    self.try_stack = saved_try_stack[:ti]
                    self.loop_stack = saved_loop_stack[: try_ctx.loop_depth]
                    try:
                        self._compile_statement(try_ctx.finalizer)
                    finally:
                        self.try_stack = saved_try_stack
                        self.loop_stack = saved_loop_stack
                ti -= 1
            else:
                # Loops that enclose every remaining try statement
                for _ in range(saved_loop_stack[li].stack_items):
                    self._emit(OpCode.POP)
                li -= 1

'''
s=s.replace(old,new)

old='''            # Leave the try statements entered inside the target construct
            self._emit_pending_finally_blocks(ctx.try_depth)

            # Pop what the constructs nested inside the target keep on the stack
            self._emit_pops_for_exit(ctx)

            pos = self._emit_jump(OpCode.JUMP)
            ctx.break_jumps.append(pos)
'''
new='''            # Leave the loops, switches and try statements inside the target
            self._emit_exit_cleanup(ctx)

            pos = self._emit_jump(OpCode.JUMP)
            ctx.break_jumps.append(pos)
'''
assert old in s; s=s.replace(old,new)
old='''            # Leave the try statements entered inside the target loop
            self._emit_pending_finally_blocks(ctx.try_depth)

            # Pop what the constructs nested inside the target keep on the stack
            self._emit_pops_for_exit(ctx)

            pos = self._emit_jump(OpCode.JUMP)
            ctx.continue_jumps.append(pos)
'''
new='''            # Leave the loops, switches and try statements inside the target
            self._emit_exit_cleanup(ctx)

            pos = self._emit_jump(OpCode.JUMP)
            ctx.continue_jumps.append(pos)
'''
assert old in s; s=s.replace(old,new)
assert s.count('self._emit_pending_finally_blocks()')==3
s=s.replace('self._emit_pending_finally_blocks()','self._emit_exit_cleanup()')

old='''    handler_active: bool = False
'''
new='''    handler_active: bool = False
    # Number of enclosing loops/switches/labels when the statement was entered
    loop_depth: int = 0
'''
assert old in s; s=s.replace(old,new,1)
old='''            try_ctx = TryContext(finalizer=node.finalizer)
'''
new='''            try_ctx = TryContext(
                finalizer=node.finalizer, loop_depth=len(self.loop_stack)
            )
'''
assert old in s; s=s.replace(old,new,1)
open(p,'w').write(s)
print('patched', p)
