#!/bin/bash
cd "$(dirname "$0")/.."
/venv/bin/python simjs/run.py check C02 --tier thorough 2>&1 | tail -4 | cut -c1-300
echo "exit=$?"
echo T-DONE
